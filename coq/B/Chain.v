(* Layer B proofs: list surgery on the heap preserves the cycle (chain), for every position of the entry
   (LRU, MRU, middle, only entry: no special cases), and the reallocation loop re-links every entry for an
   ARBITRARY table iteration order.  C07, C05 (pointer level). *)
Require Export LruV.B.Heap.
From Coq Require Export Lia Permutation.
Lemma upd_same h a n : upd h a n a = Some n.
Proof. unfold upd. now rewrite N.eqb_refl. Qed.
Lemma upd_other h a n b : b <> a -> upd h a n b = h b.
Proof. unfold upd. intros H. destruct (N.eqb_spec b a); congruence. Qed.

(* frame: a heap update at a that preserves nothing about a, but chain doesn't mention a as source of next / target of prev *)
Lemma chain_app h c1 x c2 : chain h (c1 ++ x :: c2) <-> chain h (c1 ++ [x]) /\ chain h (x :: c2).
Proof.
  induction c1 as [|a c1 IH]; cbn [app chain].
  - destruct c2; tauto.
  - destruct c1 as [|b c1]; cbn [app] in *.
    + destruct c2; cbn [chain]; tauto.
    + cbn [chain] in *. tauto.
Qed.

Definition agree_next (h h' : heap) (a : addr) := nextof h' a = nextof h a.
Definition agree_prev (h h' : heap) (a : addr) := prevof h' a = prevof h a.

(* chain depends on next of all-but-last and prev of all-but-first *)
Lemma chain_frame h h' c :
  (forall a, In a (removelast c) -> agree_next h h' a) ->
  (forall a, In a (tl c) -> agree_prev h h' a) ->
  chain h c -> chain h' c.
Proof.
  induction c as [|x r IH]; [easy|].
  destruct r as [|y r]; [easy|].
  intros Hn Hp [H1 [H2 H3]]. cbn [chain]. repeat split.
  - rewrite Hn; [exact H1|]. cbn. now left.
  - rewrite Hp; [exact H2|]. cbn. now left.
  - apply IH; [| |exact H3].
    + intros a Ha. apply Hn. cbn [removelast]. right. exact Ha.
    + intros a Ha. apply Hp. cbn [tl]. right. destruct r; [easy|]. exact Ha.
Qed.

Lemma nextof_set_next h a x h' b : set_next h a x = Some h' ->
  nextof h' b = if N.eqb b a then Some x else nextof h b.
Proof.
  unfold set_next, nextof. destruct (h a) as [n|] eqn:E; [|discriminate].
  intros [= <-]. unfold upd. destruct (N.eqb_spec b a); [reflexivity|reflexivity].
Qed.
Lemma prevof_set_next h a x h' b : set_next h a x = Some h' -> prevof h' b = prevof h b.
Proof.
  unfold set_next, prevof. destruct (h a) as [n|] eqn:E; [|discriminate].
  intros [= <-]. unfold upd. destruct (N.eqb_spec b a) as [->|]; [now rewrite E|reflexivity].
Qed.
Lemma prevof_set_prev h a x h' b : set_prev h a x = Some h' ->
  prevof h' b = if N.eqb b a then Some x else prevof h b.
Proof.
  unfold set_prev, prevof. destruct (h a) as [n|] eqn:E; [|discriminate].
  intros [= <-]. unfold upd. destruct (N.eqb_spec b a); reflexivity.
Qed.
Lemma nextof_set_prev h a x h' b : set_prev h a x = Some h' -> nextof h' b = nextof h b.
Proof.
  unfold set_prev, nextof. destruct (h a) as [n|] eqn:E; [|discriminate].
  intros [= <-]. unfold upd. destruct (N.eqb_spec b a) as [->|]; [now rewrite E|reflexivity].
Qed.
Lemma set_next_ok h a x : h a <> None -> exists h', set_next h a x = Some h'.
Proof. unfold set_next. destruct (h a); [eauto|congruence]. Qed.
Lemma set_prev_ok h a x : h a <> None -> exists h', set_prev h a x = Some h'.
Proof. unfold set_prev. destruct (h a); [eauto|congruence]. Qed.
Lemma set_next_dom h a x h' b : set_next h a x = Some h' -> (h' b <> None <-> h b <> None).
Proof. unfold set_next. destruct (h a) eqn:E; [|discriminate]. intros [= <-]. unfold upd.
  destruct (N.eqb_spec b a) as [->|]; [rewrite E; split; congruence|tauto]. Qed.
Lemma set_prev_dom h a x h' b : set_prev h a x = Some h' -> (h' b <> None <-> h b <> None).
Proof. unfold set_prev. destruct (h a) eqn:E; [|discriminate]. intros [= <-]. unfold upd.
  destruct (N.eqb_spec b a) as [->|]; [rewrite E; split; congruence|tauto]. Qed.

Lemma chain_cons2 h x y r : chain h (x :: y :: r) <-> nextof h x = Some y /\ prevof h y = Some x /\ chain h (y :: r).
Proof. reflexivity. Qed.

(* The cycle is  c = pre ++ [p; a; x] ++ post  (p, x may both be the seal when the list is a singleton:
   then pre = [] , post = [] and p = x ). NoDup on removelast c. *)
Lemma unhinge_chain h pre p a x post :
  let c := pre ++ p :: a :: x :: post in
  chain h c ->
  NoDup (removelast c) -> NoDup (tl c) ->
  exists h', unhinge h a = Some h' /\ chain h' (pre ++ p :: x :: post)
     /\ (forall b, h' b <> None <-> h b <> None).
Proof.
  intros c Hc Hnd1 Hnd2. subst c.
  apply chain_app in Hc as [Hpre Hrest].
  cbn [chain] in Hrest. destruct Hrest as (Hpa & Hap & Hrest).
  apply (chain_app h [a] x post) in Hrest as [Hax Hpost]. cbn [app chain] in Hax.
  destruct Hax as (Hax & Hxa & _).
  unfold unhinge.
  assert (Ha : exists n, h a = Some n /\ nprev n = p /\ nnext n = x).
  { unfold nextof, prevof in *. destruct (h a) as [n|]; [|discriminate].
    exists n. repeat split; congruence. }
  destruct Ha as (n & Ea & Hp & Hx). rewrite Ea. cbn [bind]. rewrite Hp, Hx.
  assert (Hpd : h p <> None). { unfold nextof in Hpa. destruct (h p); congruence. }
  assert (Hxd : h x <> None). { unfold prevof in Hxa. destruct (h x); congruence. }
  destruct (set_next_ok h p x Hpd) as [h1 E1]. rewrite E1. cbn [bind].
  assert (Hxd1 : h1 x <> None) by (apply (set_next_dom _ _ _ _ x E1); exact Hxd).
  destruct (set_prev_ok h1 x p Hxd1) as [h2 E2]. rewrite E2.
  exists h2. split; [reflexivity|]. split.
  2:{ intros b. rewrite (set_prev_dom _ _ _ _ b E2). apply (set_next_dom _ _ _ _ b E1). }
  apply (proj2 (chain_app h2 pre p (x :: post))). split.
  - (* prefix pre ++ [p] unchanged: next of elements of pre (≠ p since NoDup removelast), prev of tl ≠ x *)
    eapply chain_frame; [| |exact Hpre].
    + intros b Hb. unfold agree_next.
      rewrite (nextof_set_prev _ _ _ _ b E2), (nextof_set_next _ _ _ _ b E1).
      destruct (N.eqb_spec b p) as [->|]; [|reflexivity].
      exfalso. rewrite removelast_app in Hb by discriminate. cbn in Hb. rewrite app_nil_r in Hb.
      rewrite removelast_app in Hnd1 by discriminate.
      apply NoDup_remove_2 in Hnd1. apply Hnd1. apply in_or_app. now left.
    + intros b Hb. unfold agree_prev.
      rewrite (prevof_set_prev _ _ _ _ b E2), (prevof_set_next _ _ _ _ b E1).
      destruct (N.eqb_spec b x) as [->|]; [|reflexivity].
      exfalso.
      destruct pre as [|q pre]; [cbn in Hb; tauto|].
      cbn [app tl] in Hb, Hnd2.
      assert (Hnd3 : NoDup ((pre ++ [p; a]) ++ x :: post)) by (rewrite <- app_assoc; exact Hnd2).
      apply NoDup_remove_2 in Hnd3. apply Hnd3. apply in_or_app. left.
      apply in_app_or in Hb as [Hb|Hb]; apply in_or_app; [now left|right].
      cbn in Hb |- *. tauto.
  - apply chain_cons2. split; [|split].
    + rewrite (nextof_set_prev _ _ _ _ p E2), (nextof_set_next _ _ _ _ p E1). now rewrite N.eqb_refl.
    + rewrite (prevof_set_prev _ _ _ _ x E2). now rewrite N.eqb_refl.
    + eapply chain_frame; [| |exact Hpost].
      * intros b Hb. unfold agree_next.
        rewrite (nextof_set_prev _ _ _ _ b E2), (nextof_set_next _ _ _ _ b E1).
        destruct (N.eqb_spec b p) as [->|]; [|reflexivity].
        exfalso.
        (* p occurs in removelast c before; b ∈ removelast (x::post) is later in removelast c *)
        assert (Hsplit : removelast (pre ++ p :: a :: x :: post) = pre ++ p :: a :: removelast (x :: post)).
        { rewrite removelast_app by discriminate.
          change (p :: a :: x :: post) with ([p; a] ++ x :: post).
          rewrite removelast_app by discriminate. reflexivity. }
        rewrite Hsplit in Hnd1. apply NoDup_remove_2 in Hnd1. apply Hnd1.
        apply in_or_app. right. right. exact Hb.
      * intros b Hb. unfold agree_prev.
        rewrite (prevof_set_prev _ _ _ _ b E2), (prevof_set_next _ _ _ _ b E1).
        destruct (N.eqb_spec b x) as [->|]; [|reflexivity].
        exfalso.
        assert (Hnd3 : NoDup (x :: post)).
        { clear - Hnd2. destruct pre; cbn [app tl] in Hnd2.
          - now apply NoDup_cons_iff in Hnd2 as [_ ?].
            - change (pre ++ p :: a :: x :: post) with (pre ++ [p; a] ++ x :: post) in Hnd2.
            rewrite app_assoc in Hnd2. clear - Hnd2. induction (pre ++ [p; a]) as [|z zs IH]; [exact Hnd2|].
            cbn [app] in Hnd2. apply NoDup_cons_iff in Hnd2 as [_ ?]. auto. }
        apply NoDup_cons_iff in Hnd3 as [Hnin _]. apply Hnin. cbn [tl] in Hb. exact Hb.
Qed.

Lemma free_other h a b : b <> a -> free h a b = h b.
Proof. unfold free. intros. destruct (N.eqb_spec b a); congruence. Qed.
Lemma free_same h a : free h a a = None.
Proof. unfold free. now rewrite N.eqb_refl. Qed.

Lemma nextof_upd h a n b : nextof (upd h a n) b = if N.eqb b a then Some (nnext n) else nextof h b.
Proof. unfold nextof, upd. destruct (N.eqb_spec b a); reflexivity. Qed.
Lemma prevof_upd h a n b : prevof (upd h a n) b = if N.eqb b a then Some (nprev n) else prevof h b.
Proof. unfold prevof, upd. destruct (N.eqb_spec b a); reflexivity. Qed.
Lemma nextof_free h a b : b <> a -> nextof (free h a) b = nextof h b.
Proof. intros. unfold nextof. now rewrite free_other. Qed.
Lemma prevof_free h a b : b <> a -> prevof (free h a) b = prevof h b.
Proof. intros. unfold prevof. now rewrite free_other. Qed.

Lemma in_removelast_tl_nodup {A} (c : list A) x : In x (removelast c) \/ In x (tl c) -> In x c.
Proof.
  intros [H|H].
  - destruct c as [|y c]; [easy|]. revert y H. induction c as [|z c IH]; intros y H; [easy|].
    cbn [removelast] in H. destruct H as [->|H]; [now left|]. right. apply IH. exact H.
  - destruct c; [easy|]. now right.
Qed.


Lemma nodup_mid {A} (l1 l2 : list A) y : NoDup (l1 ++ y :: l2) -> (forall b, In b l1 -> b <> y) /\ (forall b, In b l2 -> b <> y).
Proof.
  intros H. apply NoDup_remove_2 in H. split; intros b Hb ->; apply H; apply in_or_app; [now left|now right].
Qed.

Lemma cycle_facts (pre post : list addr) p a x :
  let c := pre ++ p :: a :: x :: post in
  NoDup (removelast c) -> NoDup (tl c) ->
  let RL := removelast (x :: post) in let TP := tl (pre ++ [p]) in
  (forall b, In b pre -> b <> p /\ b <> a) /\ (forall b, In b RL -> b <> p /\ b <> a) /\ p <> a /\
  (forall b, In b TP -> b <> x /\ b <> a) /\ (forall b, In b post -> b <> x /\ b <> a) /\ x <> a.
Proof.
  intros c H1 H2 RL TP. subst c.
  assert (E1 : removelast (pre ++ p :: a :: x :: post) = pre ++ p :: a :: RL).
  { rewrite removelast_app by discriminate. change (p :: a :: x :: post) with ([p; a] ++ x :: post).
    rewrite removelast_app by discriminate. reflexivity. }
  assert (E2 : tl (pre ++ p :: a :: x :: post) = TP ++ a :: x :: post).
  { unfold TP. destruct pre; cbn [app tl]; [reflexivity|]. rewrite <- app_assoc. reflexivity. }
  rewrite E1 in H1. rewrite E2 in H2.
  destruct (nodup_mid pre (a :: RL) p H1) as [A1 A2].
  assert (H1' : NoDup ((pre ++ [p]) ++ a :: RL)) by (rewrite <- app_assoc; exact H1).
  destruct (nodup_mid _ _ _ H1') as [B1 B2].
  destruct (nodup_mid TP (x :: post) a H2) as [C1 C2].
  assert (H2' : NoDup ((TP ++ [a]) ++ x :: post)) by (rewrite <- app_assoc; exact H2).
  destruct (nodup_mid _ _ _ H2') as [D1 D2].
  repeat split; intros; auto.
  - apply B1. apply in_or_app. now left.
  - apply A2. now right.
  - apply B1. apply in_or_app. right. now left.
  - apply D1. apply in_or_app. now left.
  - apply C2. now right.
  - intros ->. apply (D1 a); [apply in_or_app; right; now left|reflexivity].
Qed.

Lemma move_chain h pre p a x post a' :
  let c := pre ++ p :: a :: x :: post in
  chain h c -> NoDup (removelast c) -> NoDup (tl c) ->
  ~ In a' c -> a' <> a ->
  exists h', move h a a' = Some h' /\ chain h' (pre ++ p :: a' :: x :: post)
     /\ h' a = None /\ h' a' <> None
     /\ (forall b, b <> a -> b <> a' -> (h' b <> None <-> h b <> None)).
Proof.
  intros c Hc Hnd1 Hnd2 Hfresh Hne. subst c.
  destruct (cycle_facts pre post p a x Hnd1 Hnd2) as (F1 & F2 & Hpa_ne & F3 & F4 & Hxa_ne).
  assert (Hp' : p <> a') by (intros ->; apply Hfresh; apply in_or_app; right; now left).
  assert (Hx' : x <> a') by (intros ->; apply Hfresh; apply in_or_app; right; right; right; now left).
  apply chain_app in Hc as [Hpre Hrest].
  apply chain_cons2 in Hrest as (Hpa & Hap & Hrest).
  apply chain_cons2 in Hrest as (Hax & Hxa & Hpost).
  assert (Ha : exists n, h a = Some n /\ nprev n = p /\ nnext n = x).
  { unfold nextof, prevof in *. destruct (h a) as [n|]; [|discriminate]. exists n. repeat split; congruence. }
  destruct Ha as (n & Ea & Hp & Hx).
  unfold move. rewrite Ea. cbn [bind]. rewrite Hp, Hx.
  set (h0 := upd (free h a) a' n).
  assert (Hpd : h0 p <> None).
  { unfold h0. rewrite upd_other by exact Hp'. rewrite free_other by exact Hpa_ne.
    unfold nextof in Hpa. destruct (h p); congruence. }
  destruct (set_next_ok h0 p a' Hpd) as [h1 E1]. rewrite E1. cbn [bind].
  assert (Hxd : h1 x <> None).
  { apply (set_next_dom _ _ _ _ x E1). unfold h0. rewrite upd_other by exact Hx'. rewrite free_other by exact Hxa_ne.
    unfold prevof in Hxa. destruct (h x); congruence. }
  destruct (set_prev_ok h1 x a' Hxd) as [h2 E2]. rewrite E2.
  exists h2. split; [reflexivity|].
  assert (NX : forall b, nextof h2 b = if N.eqb b p then Some a' else if N.eqb b a' then Some x else if N.eqb b a then None else nextof h b).
  { intros b. rewrite (nextof_set_prev _ _ _ _ b E2), (nextof_set_next _ _ _ _ b E1).
    destruct (N.eqb_spec b p); [reflexivity|]. unfold h0. rewrite nextof_upd.
    destruct (N.eqb_spec b a'); [now rewrite Hx|]. destruct (N.eqb_spec b a) as [->|]; [unfold nextof; now rewrite free_same|].
    now apply nextof_free. }
  assert (PV : forall b, prevof h2 b = if N.eqb b x then Some a' else if N.eqb b a' then Some p else if N.eqb b a then None else prevof h b).
  { intros b. rewrite (prevof_set_prev _ _ _ _ b E2). destruct (N.eqb_spec b x); [reflexivity|].
    rewrite (prevof_set_next _ _ _ _ b E1). unfold h0. rewrite prevof_upd.
    destruct (N.eqb_spec b a'); [now rewrite Hp|]. destruct (N.eqb_spec b a) as [->|]; [unfold prevof; now rewrite free_same|].
    now apply prevof_free. }
  assert (NXsame : forall b, b <> p -> b <> a' -> b <> a -> nextof h2 b = nextof h b).
  { intros b ? ? ?. rewrite NX. destruct (N.eqb_spec b p); [tauto|]. destruct (N.eqb_spec b a'); [tauto|]. destruct (N.eqb_spec b a); tauto. }
  assert (PVsame : forall b, b <> x -> b <> a' -> b <> a -> prevof h2 b = prevof h b).
  { intros b ? ? ?. rewrite PV. destruct (N.eqb_spec b x); [tauto|]. destruct (N.eqb_spec b a'); [tauto|]. destruct (N.eqb_spec b a); tauto. }
  split.
  { apply (proj2 (chain_app h2 pre p (a' :: x :: post))). split.
    - eapply chain_frame; [| |exact Hpre].
      + intros b Hb. rewrite removelast_app in Hb by discriminate. cbn in Hb. rewrite app_nil_r in Hb.
        destruct (F1 b Hb). apply NXsame; auto. intros ->. apply Hfresh. apply in_or_app. now left.
      + intros b Hb. destruct (F3 b Hb). apply PVsame; auto. intros ->. apply Hfresh.
        destruct pre as [|q pre]; [cbn in Hb; tauto|]. cbn [app tl] in Hb. cbn [app]. right.
        apply in_app_or in Hb as [?|[<-|[]]]; apply in_or_app; [now left|right; now left].
    - apply chain_cons2. split; [|split].
      + rewrite NX. now rewrite N.eqb_refl.
      + rewrite PV. destruct (N.eqb_spec a' x) as [->|]; [congruence|]. now rewrite N.eqb_refl.
      + apply chain_cons2. split; [|split].
        * rewrite NX. destruct (N.eqb_spec a' p) as [->|]; [congruence|]. now rewrite N.eqb_refl.
        * rewrite PV. now rewrite N.eqb_refl.
        * eapply chain_frame; [| |exact Hpost].
          -- intros b Hb. destruct (F2 b Hb). apply NXsame; auto. intros ->. apply Hfresh.
             apply in_or_app. right. right. right. apply (in_removelast_tl_nodup (x :: post)). now left.
          -- intros b Hb. cbn [tl] in Hb. destruct (F4 b Hb). apply PVsame; auto. intros ->. apply Hfresh.
             apply in_or_app. right. right. right. right. exact Hb. }
  assert (DOM : forall b, h2 b <> None <-> h0 b <> None).
  { intros b. rewrite (set_prev_dom _ _ _ _ b E2). apply (set_next_dom _ _ _ _ b E1). }
  split; [|split].
  - destruct (h2 a) eqn:E; [|reflexivity]. exfalso.
    assert (Hna : h2 a <> None) by congruence. apply DOM in Hna. apply Hna. unfold h0. rewrite upd_other by congruence. apply free_same.
  - apply DOM. unfold h0. rewrite upd_same. discriminate.
  - intros b Hb1 Hb2. rewrite DOM. unfold h0. rewrite upd_other by exact Hb2. rewrite free_other by exact Hb1. tauto.
Qed.

Definition subst (a a' : addr) (l : list addr) := map (fun b => if N.eqb b a then a' else b) l.
Lemma subst_notin a a' l : ~ In a l -> subst a a' l = l.
Proof. unfold subst. induction l as [|b l IH]; cbn [map]; [reflexivity|]. intros H. destruct (N.eqb_spec b a) as [->|]; [exfalso; apply H; now left|]. rewrite IH; [reflexivity|]. intros H'. apply H. now right. Qed.


Lemma nodup_snoc {A} (l : list A) x : NoDup l -> ~ In x l -> NoDup (l ++ [x]).
Proof.
  induction l as [|y l IH]; intros Hn Hx; cbn; [repeat constructor; easy|].
  apply NoDup_cons_iff in Hn as [Hy Hl]. constructor.
  - intros H. apply in_app_or in H as [H|[<-|[]]]; [tauto|]. apply Hx. now left.
  - apply IH; [exact Hl|]. intros H. apply Hx. now right.
Qed.

Lemma cyc_nodup (seal : addr) (l : list addr) : NoDup (seal :: l) ->
  NoDup (removelast (seal :: l ++ [seal])) /\ NoDup (tl (seal :: l ++ [seal])).
Proof.
  intros H. split.
  - change (seal :: l ++ [seal]) with ((seal :: l) ++ [seal]). rewrite removelast_last. exact H.
  - cbn [tl]. apply NoDup_cons_iff in H as [Hs Hl]. now apply nodup_snoc.
Qed.

Lemma decompose (seal : addr) l a a' : NoDup (seal :: l) -> In a l ->
  exists pre p x post,
    seal :: l ++ [seal] = pre ++ p :: a :: x :: post /\
    seal :: subst a a' l ++ [seal] = pre ++ p :: a' :: x :: post.
Proof.
  intros Hnd Hin. apply in_split in Hin as (l1 & l2 & ->).
  apply NoDup_cons_iff in Hnd as [Hs Hl]. destruct (nodup_mid _ _ _ Hl) as [N1 N2].
  assert (Hsub : subst a a' (l1 ++ a :: l2) = l1 ++ a' :: l2).
  { unfold subst at 1. rewrite map_app. cbn [map]. rewrite N.eqb_refl.
    change (map (fun b => if N.eqb b a then a' else b) l1) with (subst a a' l1).
    change (map (fun b => if N.eqb b a then a' else b) l2) with (subst a a' l2).
    rewrite !subst_notin; [reflexivity| |].
    - intros H. now apply (N2 a).
    - intros H. now apply (N1 a). }
  rewrite Hsub.
  destruct (exists_last (l := seal :: l1) ltac:(discriminate)) as (pre & p & Hp).
  destruct (l2 ++ [seal]) as [|x post] eqn:E2; [destruct l2; discriminate|].
  exists pre, p, x, post. split.
  - change (seal :: (l1 ++ a :: l2) ++ [seal]) with ((seal :: l1 ++ a :: l2) ++ [seal]).
    replace ((seal :: l1 ++ a :: l2) ++ [seal]) with ((seal :: l1) ++ a :: (l2 ++ [seal])) by (cbn; rewrite <- app_assoc; reflexivity).
    rewrite Hp, E2, <- app_assoc. reflexivity.
  - replace (seal :: (l1 ++ a' :: l2) ++ [seal]) with ((seal :: l1) ++ a' :: (l2 ++ [seal])) by (cbn; rewrite <- app_assoc; reflexivity).
    rewrite Hp, E2, <- app_assoc. reflexivity.
Qed.

Fixpoint rename_all (todo : list addr) (fresh : addr) (l : list addr) : list addr :=
  match todo with [] => l | a :: r => rename_all r (fresh + 1) (subst a fresh l) end.

Lemma in_subst a a' l b : In b (subst a a' l) -> (b = a' /\ In a l) \/ (b <> a /\ In b l).
Proof.
  unfold subst. intros H. apply in_map_iff in H as (c & Hc & Hin). destruct (N.eqb_spec c a) as [E|E].
  - left. subst. auto.
  - right. subst. auto.
Qed.
Lemma nodup_subst a a' l : NoDup l -> ~ In a' l -> NoDup (subst a a' l).
Proof.
  induction l as [|b l IH]; cbn; intros Hn Hf; [constructor|].
  apply NoDup_cons_iff in Hn as [Hb Hl]. constructor; [|apply IH; tauto].
  intros H. apply in_subst in H as [[E Ha]|[Hne Hin]].
  - destruct (N.eqb_spec b a) as [->|]; [tauto|]. subst b. tauto.
  - destruct (N.eqb_spec b a) as [->|]; [|tauto]. apply Hf. now right.
Qed.

Theorem realloc_loop : forall todo h seal l fresh,
  NoDup (seal :: l) -> chain h (seal :: l ++ [seal]) ->
  NoDup todo -> (forall a, In a todo -> In a l) ->
  (forall b, In b (seal :: l) -> b < fresh) ->
  exists h', moves h todo fresh = Some h' /\
             chain h' (seal :: rename_all todo fresh l ++ [seal]) /\
             NoDup (seal :: rename_all todo fresh l) /\
             (forall a, In a todo -> h' a = None).
Proof.
  induction todo as [|a todo IH]; intros h seal l fresh Hnd Hc Hnt Hsub Hlt.
  - exists h. cbn. repeat split; auto. intros a [].
  - cbn [moves rename_all].
    assert (Hin : In a l) by (apply Hsub; now left).
    assert (Hfresh : ~ In fresh (seal :: l)) by (intros H; apply Hlt in H; lia).
    destruct (decompose seal l a fresh Hnd Hin) as (pre & p & x & post & Ec & Ec').
    destruct (cyc_nodup seal l Hnd) as [Hn1 Hn2].
    rewrite Ec in Hc, Hn1, Hn2.
    assert (Hf2 : ~ In fresh (pre ++ p :: a :: x :: post)).
    { rewrite <- Ec. intros H. change (seal :: l ++ [seal]) with ((seal :: l) ++ [seal]) in H.
      apply in_app_or in H as [H|[<-|[]]]; [tauto|]. apply Hfresh. now left. }
    assert (Hne : fresh <> a) by (intros ->; apply Hfresh; now right).
    destruct (move_chain h pre p a x post fresh Hc Hn1 Hn2 Hf2 Hne) as (h1 & Em & Hc1 & Hfree & Hnew & Hdom).
    rewrite Em. cbn [bind]. rewrite <- Ec' in Hc1.
    apply NoDup_cons_iff in Hnt as [Hat Hnt].
    assert (Hnd' : NoDup (seal :: subst a fresh l)).
    { apply NoDup_cons_iff in Hnd as [Hs Hl]. constructor.
      - intros H. apply in_subst in H as [[E _]|[_ H]]; [|tauto]. apply Hfresh. left. congruence.
      - apply nodup_subst; [exact Hl|]. intros H. apply Hfresh. now right. }
    destruct (IH h1 seal (subst a fresh l) (fresh + 1) Hnd' Hc1 Hnt) as (h' & Em' & Hc' & Hnd'' & Hfreed).
    + intros b Hb. unfold subst. apply in_map_iff. exists b. split; [|apply Hsub; now right].
      destruct (N.eqb_spec b a) as [->|]; [tauto|reflexivity].
    + intros b [<-|Hb]; [specialize (Hlt seal (or_introl eq_refl)); lia|].
      apply in_subst in Hb as [[-> _]|[_ Hb]]; [lia|]. specialize (Hlt b (or_intror Hb)). lia.
    + exists h'. split; [exact Em'|]. split; [exact Hc'|]. split; [exact Hnd''|].
      intros b [<-|Hb]; [|now apply Hfreed].
      (* a stays freed through the remaining moves: it is never a fresh address nor touched *)
      clear - Em' Hfree Hat Hlt Hin.
      assert (G : forall todo h1 fr, moves h1 todo fr = Some h' -> h1 a = None -> ~ In a todo -> a < fr -> h' a = None).
      { clear. induction todo as [|c todo IHt]; intros h1 fr Hm H0 Hni Hlt; cbn in Hm; [congruence|].
        unfold bind in Hm. destruct (move h1 c fr) as [h2|] eqn:E; [|discriminate].
        apply (IHt h2 (fr + 1)); [exact Hm| |cbn in Hni; tauto|lia].
        unfold move, bind in E. destruct (h1 c) as [n|]; [|discriminate].
        destruct (set_next _ _ _) as [h3|] eqn:E3; [|discriminate].
        destruct (h2 a) eqn:Ea; [|reflexivity]. exfalso.
        assert (h2 a <> None) by congruence.
        apply (set_prev_dom _ _ _ _ a E) in H. apply (set_next_dom _ _ _ _ a E3) in H.
        apply H. rewrite upd_other by lia. rewrite free_other; [exact H0|]. intros ->. apply Hni. now left. }
      apply (G todo h1 (fresh + 1)); auto. specialize (Hlt a (or_intror Hin)). lia.
Qed.
