(* Layer B proofs: the double-ended cursors of src/iter.rs (Iter, and TakingIterator which steps the
   same way) yield exactly take_ends of the list, for every pattern of next()/next_back() calls (any
   length, past exhaustion) and every list length.  C12 at pointer level. *)
Require Export LruV.B.Chain LruV.A.ModelA.

(* what the heap must provide: along the LRU->MRU list, prev goes right and next goes left *)
Definition linked (h : heap) (L : list addr) : Prop :=
  forall L1 a b L2, L = L1 ++ a :: b :: L2 -> prevof h a = Some b /\ nextof h b = Some a.

Lemma linked_tail h a M : linked h (a :: M) -> linked h M.
Proof. intros H L1 x y L2 E. apply (H (a :: L1) x y L2). now rewrite E. Qed.
Lemma linked_removelast h M : linked h M -> linked h (removelast M).
Proof.
  intros H L1 x y L2 E. destruct M as [|m M] using rev_ind; [destruct L1; discriminate|].
  rewrite removelast_last in E. apply (H L1 x y (L2 ++ [m])). rewrite E, <- app_assoc. reflexivity.
Qed.

(* the cursor state for a remaining list M: next at its first element, next_back at its last; exhausted = null *)
Definition start (M : list addr) (stale : addr) : cursor :=
  match M with [] => {| c_next := None; c_back := stale |} | a :: _ => {| c_next := Some a; c_back := last M a |} end.

Lemma last_cons_ne {A} (a : A) M d d' : M <> [] -> last (a :: M) d = last M d'.
Proof.
  intros H. destruct M as [|b M]; [congruence|]. cbn [last]. clear H. revert b. induction M as [|c M IH]; intros b; [reflexivity|].
  cbn [last]. cbn [last] in IH. apply IH.
Qed.

Theorem iter_spec h : forall pat M stale, NoDup M -> linked h M ->
  it_run h (start M stale) pat = Some (fst (take_ends M pat)).
Proof.
  induction pat as [|f pat IH]; intros M stale Hnd Hl; [reflexivity|].
  destruct M as [|a M].
  - (* exhausted: stays exhausted for ever (fused) *)
    cbn [it_run start]. destruct f; cbn [it_next it_next_back c_next bind take_ends fst snd];
      specialize (IH [] stale Hnd Hl); cbn [start] in IH; rewrite IH; destruct (take_ends [] pat); reflexivity.
  - destruct f.
    + (* front *)
      cbn [it_run start it_next c_next c_back take_ends].
      destruct M as [|b M'].
      * cbn [last]. rewrite N.eqb_refl. cbn [bind fst snd]. specialize (IH [] a (NoDup_nil _)).
        cbn [start] in IH. rewrite IH; [destruct (take_ends [] pat); reflexivity|].
        intros L1 ? ? ? E; destruct L1; discriminate.
      * assert (Hne : a <> last (a :: b :: M') a).
        { rewrite (last_cons_ne a (b :: M') a b) by discriminate. intros E. apply NoDup_cons_iff in Hnd as [Hn _]. apply Hn.
          rewrite E. assert (Hx : b :: M' <> []) by discriminate. destruct (exists_last Hx) as (x & y & Ex). rewrite Ex, last_last.
          apply in_or_app. right. now left. }
        destruct (N.eqb_spec a (last (a :: b :: M') a)); [tauto|].
        destruct (Hl [] a b M' eq_refl) as [Hp _]. rewrite Hp. cbn [bind fst snd].
        rewrite (last_cons_ne a (b :: M') a b) by discriminate.
        specialize (IH (b :: M') 0). cbn [start] in IH. rewrite IH; [destruct (take_ends (b :: M') pat); reflexivity| |].
        -- now apply NoDup_cons_iff in Hnd as [_ ?].
        -- eapply linked_tail; eauto.
    + (* back *)
      cbn [it_run start it_next_back c_next c_back take_ends].
      destruct M as [|b M'].
      * cbn [last]. rewrite N.eqb_refl. cbn [bind removelast fst snd]. specialize (IH [] a (NoDup_nil _)).
        cbn [start] in IH. rewrite IH; [destruct (take_ends [] pat); reflexivity|].
        intros L1 ? ? ? E; destruct L1; discriminate.
      * assert (HM : a :: b :: M' <> []) by discriminate.
        destruct (exists_last HM) as (R & z & ER). rewrite ER. rewrite last_last, removelast_last.
        assert (Hza : z <> a).
        { intros ->. rewrite ER in Hnd. destruct R as [|r R]; [discriminate|]. injection ER as <- _.
          cbn [app] in Hnd. apply NoDup_cons_iff in Hnd as [Hn _]. apply Hn. apply in_or_app. right. now left. }
        destruct (N.eqb_spec z a); [tauto|].
        destruct R as [|r R]; [discriminate|]. injection ER as <- ER.
        assert (HR : a :: R <> []) by discriminate.
        destruct (exists_last HR) as (R0 & y & ER0).
        assert (Hlz : nextof h z = Some y).
        { rewrite ER, app_comm_cons, ER0, <- app_assoc in Hl. cbn [app] in Hl.
          destruct (Hl R0 y z [] eq_refl) as [_ Hq]. exact Hq. }
        rewrite Hlz. cbn [bind fst snd].
        specialize (IH (a :: R) 0). cbn [start] in IH.
        assert (Elast : last (a :: R) a = y) by (rewrite ER0; apply last_last).
        rewrite Elast in IH. rewrite IH; [destruct (take_ends (a :: R) pat); reflexivity| |].
        -- rewrite ER in Hnd. change (a :: R ++ [z]) with ((a :: R) ++ [z]) in Hnd.
           apply NoDup_remove_1 in Hnd. now rewrite app_nil_r in Hnd.
        -- assert (E' : a :: b :: M' = (a :: R) ++ [z]) by (cbn; now rewrite ER).
           rewrite E' in Hl. apply linked_removelast in Hl. now rewrite removelast_last in Hl.
Qed.

(* the borrowing iterators only read links: the heap is not an output of it_run at all (C19 for traversals) *)
