(* Layer G, definitions: the record types of the tables that /verif/sigdump generates from the Rust
   source (Gen/Sigs.v) and the checking functions over them.  The only proofs here are generic: the
   reachability computation is sound for the relation [Reach] (end of the file); everything that
   mentions a generated table is in Gen/GenProps.v and Gen/C19Static.v.

   Nothing in this file depends on the generated data; Gen/Sigs.v imports it for the record types,
   Gen/GenProps.v instantiates the functions with the generated tables. *)
From Coq Require Import String List Bool Arith.
Import ListNotations.
Open Scope string_scope.
Open Scope list_scope.

(* ------------------------------------------------------------------------------------------- *)
(* (i) struct fields and manual marker impls                                                    *)
(* ------------------------------------------------------------------------------------------- *)

Record field_info := {
  f_name    : string;
  f_ty      : string;        (* the type as written *)
  f_raw     : bool;          (* a raw pointer ( *const / *mut / NonNull ) occurs in the type *)
  f_ref     : bool;          (* the field is a reference *)
  f_ref_mut : bool;          (* ... a mutable one *)
  f_phantom : bool;          (* PhantomData<..> *)
  f_lts     : list string;   (* lifetimes occurring in the type *)
  f_tparams : list string;   (* type parameters of the struct occurring in the type *)
  f_structs : list string    (* structs of the scanned files occurring in the type *)
}.

Record struct_info := {
  st_name    : string;
  st_pub     : bool;
  st_lts     : list string;
  st_tparams : list string;
  st_fields  : list field_info
}.

Record marker_impl := {
  mi_trait     : string;                          (* "Send" / "Sync" *)
  mi_type      : string;                          (* head of the self type *)
  mi_unsafe    : bool;
  mi_negative  : bool;
  mi_irregular : bool;                            (* a shape the model cannot express *)
  mi_bounds    : list (string * list string)      (* per parameter of the struct, in the struct's order *)
}.

Definition mem (x : string) (l : list string) : bool := existsb (String.eqb x) l.

Definition is_nil {A} (l : list A) : bool := match l with [] => true | _ => false end.

Definition find_struct (ss : list struct_info) (n : string) : option struct_info :=
  find (fun s => st_name s =? n) ss.

(* Does a raw pointer occur in the struct, directly or through a struct of the scanned files?
   Out of fuel answers [false], so that exhaustion can only make [C18_not_auto] fail. *)
Fixpoint has_raw (fuel : nat) (ss : list struct_info) (n : string) : bool :=
  match fuel with
  | O => false
  | S k =>
      match find_struct ss n with
      | None => false
      | Some s => existsb (fun f => f_raw f || existsb (has_raw k ss) (f_structs f)) (st_fields s)
      end
  end.

(* The auto impls of Send and Sync are withheld from a struct that (transitively) holds a raw pointer. *)
Definition auto_blocked (ss : list struct_info) (n : string) : bool := has_raw (S (length ss)) ss n.

(* A parameter instantiation is a pair (is Send, is Sync). *)
Definition bound_holds (v : bool * bool) (b : string) : bool :=
  if b =? "Send" then fst v else if b =? "Sync" then snd v else false.   (* any other bound: not known to hold *)

Definition param_ok (v : bool * bool) (bs : list string) : bool := forallb (bound_holds v) bs.

Fixpoint params_ok (bounds : list (string * list string)) (vals : list (bool * bool)) : bool :=
  match bounds, vals with
  | [], [] => true
  | (_, bs) :: bt, v :: vt => param_ok v bs && params_ok bt vt
  | _, _ => false
  end.

Definition impl_applies (mi : marker_impl) (vals : list (bool * bool)) : bool :=
  negb (mi_irregular mi) && negb (mi_negative mi) && params_ok (mi_bounds mi) vals.

Definition pick (tr : string) (v : bool * bool) : bool := if tr =? "Send" then fst v else snd v.

Definition impls_for (impls : list marker_impl) (tr ty : string) : list marker_impl :=
  filter (fun mi => (mi_trait mi =? tr) && (mi_type mi =? ty)) impls.

(* "type [ty] instantiated with [vals] implements marker [tr]", as far as the written impls say:
   a manual impl applies when every bound written on it holds; without a manual impl the auto impl
   decides, which is withheld when a raw pointer is present and structural otherwise. *)
Definition marker_holds (impls : list marker_impl) (ss : list struct_info)
           (tr ty : string) (vals : list (bool * bool)) : bool :=
  match impls_for impls tr ty with
  | [] => negb (auto_blocked ss ty) && forallb (pick tr) vals
  | l => existsb (fun mi => impl_applies mi vals) l
  end.

(* ------------------------------------------------------------------------------------------- *)
(* (ii) signatures                                                                              *)
(* ------------------------------------------------------------------------------------------- *)

Inductive recv_kind := RecvNone | RecvRef | RecvMut | RecvVal.

(* where a lifetime of a return type comes from *)
Inductive lt_origin :=
| OElidedSelf    (* elided, the function has a &self / &mut self receiver                       *)
| ONamedSelf     (* named, and it is the receiver's lifetime (or outlived by it by a declared bound) *)
| OElidedArg     (* elided, no receiver, exactly one lifetime position in the inputs            *)
| ONamedArg      (* named, occurs in an argument type                                            *)
| OImplSelfTy    (* named, a lifetime parameter of the impl'd type, method with a receiver       *)
| OStatic        (* 'static                                                                      *)
| OFree          (* declared on the fn or impl but tied to no input                              *)
| OUnknown.

Inductive row_kind :=
| KPub     (* pub fn of an inherent impl of LruCache             *)
| KTrait   (* method of a trait impl for LruCache                *)
| KCtor    (* associated function without receiver of a struct of src/iter.rs *)
| KIter.   (* Iterator / DoubleEndedIterator method of a struct of src/iter.rs *)

Record carrier := {
  c_what      : string;     (* "&", "&mut", or the head of a type with a lifetime argument *)
  c_lt        : string;     (* the lifetime as written, "'_" when elided *)
  c_origin    : lt_origin;
  c_cache_arg : bool        (* for O*Arg: the argument is a reference to LruCache *)
}.

Record sig_row := {
  s_name      : string;
  s_kind      : row_kind;
  s_recv      : recv_kind;
  s_fn_lts    : list string;
  s_impl_lts  : list string;
  s_ret       : string;
  s_carriers  : list carrier;   (* every reference / lifetime-carrying type in the return type *)
  s_irregular : bool            (* part of the signature was not understood *)
}.

Definition origin_ok (k : row_kind) (r : recv_kind) (c : carrier) : bool :=
  match k with
  | KPub | KTrait =>
      match r with
      | RecvRef | RecvMut =>
          match c_origin c with OElidedSelf | ONamedSelf => true | _ => false end
      | RecvVal | RecvNone => true      (* nothing is obtained from a cache that stays behind *)
      end
  | KCtor =>
      match c_origin c with OElidedArg | ONamedArg => c_cache_arg c | _ => false end
  | KIter =>
      match c_origin c with OImplSelfTy | OElidedSelf | ONamedSelf => true | _ => false end
  end.

(* every reference or borrowing iterator in the return type carries the receiver's lifetime
   (constructors: the lifetime of the &LruCache argument; iterator methods: the lifetime parameter
   of the iterator, which its constructor tied), never 'static or a free parameter *)
Definition tied_to_self (s : sig_row) : bool :=
  negb (s_irregular s) && forallb (origin_ok (s_kind s) (s_recv s)) (s_carriers s).

Definition has_borrow (s : sig_row) : bool := negb (is_nil (s_carriers s)).

(* What the table predicts for the probe "keep the result, then mutate / drop the cache, then use
   the result": rejected by the borrow checker exactly when the result borrows and is tied
   (by-value receivers: the cache is gone, the program is rejected as a use after move). *)
Definition predict_misuse_rejected (s : sig_row) : bool :=
  match s_recv s with
  | RecvVal => match s_kind s with KPub | KTrait => true | _ => has_borrow s && tied_to_self s end
  | RecvNone => false
  | RecvRef | RecvMut => has_borrow s && tied_to_self s
  end.

(* ------------------------------------------------------------------------------------------- *)
(* (iii) call graph with write primitives                                                        *)
(* ------------------------------------------------------------------------------------------- *)

Record fn_node := {
  fn_name    : string;
  fn_recv    : recv_kind;
  fn_pub     : bool;
  fn_callees : list string;   (* functions of the scanned files the body may call *)
  fn_writes  : list string;   (* the write primitives found in the body (descriptions) *)
  fn_own     : list string    (* assignments to own fields of a non-cache struct (iterator cursors) *)
}.

Definition nodes_named (g : list fn_node) (n : string) : list fn_node :=
  filter (fun x => fn_name x =? n) g.
Definition known (g : list fn_node) (n : string) : bool := negb (is_nil (nodes_named g n)).
Definition callees_of (g : list fn_node) (n : string) : list string :=
  flat_map fn_callees (nodes_named g n).
Definition has_write (g : list fn_node) (n : string) : bool :=
  existsb (fun x => negb (is_nil (fn_writes x))) (nodes_named g n).

Definition add_new (l acc : list string) : list string :=
  fold_left (fun a x => if mem x a then a else a ++ [x]) l acc.

Fixpoint reach_iter (fuel : nat) (g : list fn_node) (s : list string) : list string :=
  match fuel with
  | O => s
  | S k =>
      let s' := fold_left (fun a n => add_new (callees_of g n) a) s s in
      if Nat.eqb (length s') (length s) then s else reach_iter k g s'
  end.

Definition reach_set (g : list fn_node) (f : string) : list string := reach_iter (S (length g)) g [f].

Definition closedb (g : list fn_node) (s : list string) : bool :=
  forallb (fun n => forallb (fun c => mem c s) (callees_of g n)) s.

Definition no_write_in (g : list fn_node) (s : list string) : bool :=
  forallb (fun n => negb (has_write g n)) s.

(* The computed set is checked to be closed, so the fuel plays no role in what is claimed. *)
Definition no_write_reachable (g : list fn_node) (f : string) : bool :=
  let s := reach_set g f in mem f s && closedb g s && no_write_in g s.

(* every callee named in the graph is a node of the graph *)
Definition graph_closed (g : list fn_node) : bool :=
  forallb (fun n => forallb (known g) (fn_callees n)) g.

(* replace the callee [from] by [to] everywhere *)
Definition redirect (from to : string) (g : list fn_node) : list fn_node :=
  map (fun n => Build_fn_node (fn_name n) (fn_recv n) (fn_pub n)
                  (map (fun c => if c =? from then to else c) (fn_callees n))
                  (fn_writes n) (fn_own n)) g.

(* Implicit drops.  The generated graph has a pseudo node "drop_glue(T)" for every scanned type T
   whose drop runs code of the scanned files (it calls `T::drop` and the glue of the fields T owns),
   and every function has an edge to the glue of every type a value of which may exist in its body.

   The drops-only view: "f@drops" stands for the drops that f and everything f calls perform
   IMPLICITLY - its callees are the glue nodes f has an edge to and "g@drops" for every other
   callee g; it has no write primitives of its own.  (From a glue node on, the real `T::drop` with
   all of its code is reached.)  It is used where the explicit code of a function is accounted for
   elsewhere but the drop code it triggers is in no model: the callees of the residual sites of
   clone (Gen/C19Static.v). *)
Definition glue_prefix : string := "drop_glue(".
Definition drops_suffix : string := "@drops".
Definition is_glue (c : string) : bool := String.prefix glue_prefix c.
Definition has_suffix (suf s : string) : bool :=
  let n := String.length s in
  let m := String.length suf in
  Nat.leb m n && (substring (n - m) m s =? suf).
Definition glue_of (ty : string) : string := glue_prefix ++ ty ++ ")".
Definition drops_name (c : string) : string :=
  if is_glue c || has_suffix drops_suffix c then c else c ++ drops_suffix.
Definition drops_twin (n : fn_node) : fn_node :=
  Build_fn_node (fn_name n ++ drops_suffix) (fn_recv n) false (map drops_name (fn_callees n)) [] [].
Definition with_drops_view (g : list fn_node) : list fn_node :=
  g ++ map drops_twin
         (filter (fun n => negb (is_glue (fn_name n)) && negb (has_suffix drops_suffix (fn_name n))) g).

(* the graph the static half of C19 is about: every call of [clone] goes to its source half
   (the twins keep the un-redirected "clone@drops": all implicit drops of a whole nested clone) *)
Definition c19_graph_of (clone clone_src : string) (g : list fn_node) : list fn_node :=
  redirect clone clone_src (with_drops_view g).

(* Reachability as a relation (the computation above is proved sound against it below). *)
Inductive Reach (g : list fn_node) : string -> string -> Prop :=
| reach_refl : forall f, Reach g f f
| reach_step : forall f h k, Reach g f h -> In k (callees_of g h) -> Reach g f k.

(* ------------------------------------------------------------------------------------------- *)
(* generic facts about the reachability computation (no generated data is involved)           *)
(* ------------------------------------------------------------------------------------------- *)

Lemma mem_In : forall x l, mem x l = true <-> In x l.
Proof.
  intros x l; unfold mem; rewrite existsb_exists; split.
  - intros [y [Hy He]]; apply String.eqb_eq in He; subst; exact Hy.
  - intros Hx; exists x; split; [exact Hx | apply String.eqb_refl].
Qed.

Lemma closed_reach : forall g s f,
    closedb g s = true -> In f s -> forall h, Reach g f h -> In h s.
Proof.
  intros g s f Hc Hf h Hr.
  induction Hr as [f0 | f0 h0 k0 Hr IH Hk].
  - exact Hf.
  - specialize (IH Hf).
    unfold closedb in Hc. rewrite forallb_forall in Hc.
    specialize (Hc h0 IH). rewrite forallb_forall in Hc.
    apply mem_In. apply Hc. exact Hk.
Qed.

Theorem no_write_reachable_sound : forall g f,
    no_write_reachable g f = true -> forall h, Reach g f h -> has_write g h = false.
Proof.
  intros g f H h Hr. unfold no_write_reachable in H.
  apply andb_prop in H; destruct H as [H Hw].
  apply andb_prop in H; destruct H as [Hm Hc].
  apply mem_In in Hm.
  pose proof (closed_reach g (reach_set g f) f Hc Hm h Hr) as Hin.
  unfold no_write_in in Hw. rewrite forallb_forall in Hw.
  specialize (Hw h Hin). apply negb_true_iff in Hw. exact Hw.
Qed.

Lemma forallb_In : forall (A : Type) (p : A -> bool) (l : list A) (x : A),
    forallb p l = true -> In x l -> p x = true.
Proof. intros A p l x H Hx. rewrite forallb_forall in H. exact (H x Hx). Qed.
