(* C19, static half: no `&self` operation of LruCache can reach a write primitive.

   Over the call graph GENERATED from /repo/src on every check (Gen/Sigs.v).  A node carries the
   write primitives found in the function's body (assignment through a dereference or to a field of
   a pointee, `get_mut`, `as_mut`, `ptr::write`, `ptr::drop_in_place`, `mem::swap/replace/take`,
   every `&mut self` method of hashbrown's RawTable, `unhinge`, `insert`, `value_mut`,
   `assume_init_mut`, ... and every construct the translator did not recognise).  Edges
   over-approximate calls (method calls are resolved by name and arity).

   Clone.  `LruCache::clone` does write - into the cache it builds.  The translator splits its body:
   the node "LruCache::clone@source" holds the calls and write primitives whose receiver / place is
   rooted in `self` or in a local derived from `self`; everything else is rooted in a local bound to
   the result of a constructor that takes only plain values (`clone_fresh_locals`).  In the graph
   used here every call edge to "LruCache::clone" is redirected to its source half: a (possibly
   nested) clone is held to the same claim, its writes go to the cache it creates.
   NOT covered statically: the sites listed in [clone_residual] hand source-derived values (the
   cloned Entry, which carries copies of the source's prev/next handles) to a method of the fresh
   cache; that those handles are overwritten and never written through is a fact about values, which
   Layer B (C19_frame) and the structural fingerprint of the differential check carry.

   Implicit drops.  No call is written where a value is dropped (scope end, overwriting assignment,
   early return, unwinding).  The graph has a node "drop_glue(T)" per scanned type T whose drop runs
   code of the scanned files (`impl Drop for T`, or a field that owns such a type); it calls `T::drop`
   and the glue of the owned fields.  Every function has an edge to the glue of every type a value
   of which may exist in its body (struct literals, values returned by callees, by-value parameters,
   typed bindings; sigdump/src/graph.rs), whatever the control flow.
   In clone: the drop of a value built by a plain constructor (the half-built clone, dropped when
   K::clone / V::clone / Hash panics) or returned by a nested clone is a write into fresh memory
   (listed in [clone_fresh_sites], [clone_returns_fresh] checks that what clone returns is such a
   value); every other droppable value in clone's body is an edge of the source half.  The callees
   of the residual sites run on the fresh cache but hold source-derived values: their explicit code
   is what Layer B models, the drops they perform implicitly are in no model, so the source half has
   an edge to "<callee>@drops" (GenDefs.v: the implicit drops of the callee and of everything it
   calls).  A panic guard around the cloned entry whose Drop writes through the entry's copied
   prev/next handles is found this way. *)
From Coq Require Import String List Bool.
Require Import LruV.Gen.GenDefs LruV.Gen.Sigs.
Import ListNotations.
Open Scope string_scope.
Open Scope list_scope.

Definition clone_src : string := "LruCache::clone@source".

Definition c19_graph : list fn_node := c19_graph_of "LruCache::clone" clone_src fns.

(* the shared-reference operations the property names (clone by its source half) ... *)
Definition c19_named_ops : list string :=
  [ "LruCache::peek"; "LruCache::peek_entry"; "LruCache::peek_lru"; "LruCache::peek_mru";
    "LruCache::contains"; "LruCache::len"; "LruCache::is_empty"; "LruCache::current_size";
    "LruCache::max_size"; "LruCache::capacity"; "LruCache::hasher";
    "LruCache::iter"; "LruCache::keys"; "LruCache::values";
    "LruCache::fmt"; clone_src ].
(* ... and what full traversals in both directions execute *)
Definition c19_iter_ops : list string :=
  [ "Iter::new"; "Keys::new"; "Values::new";
    "Iter::next"; "Iter::next_back"; "Keys::next"; "Keys::next_back";
    "Values::next"; "Values::next_back" ].

(* [shared_fns] is generated: every pub fn and trait method of LruCache taking `&self` that exists
   in the source now - a new shared-reference operation is covered without editing this file *)
Definition c19_roots : list string := c19_named_ops ++ c19_iter_ops ++ shared_fns.

Lemma c19_computed : forallb (no_write_reachable c19_graph) c19_roots = true.
Proof. vm_compute; reflexivity. Qed.

(* Main statement: from every shared-reference operation, no function reachable in the generated
   call graph contains a write primitive. *)
Theorem C19_static : forall f, In f c19_roots ->
    forall g, Reach c19_graph f g -> has_write c19_graph g = false.
Proof.
  intros f Hf g Hr.
  apply (no_write_reachable_sound c19_graph f); [|exact Hr].
  exact (forallb_In _ _ _ _ c19_computed Hf).
Qed.

(* every named operation is a function of the source, taking `&self` (so the statement above is
   about the real operations, not about names that resolve to nothing) *)
Theorem C19_roots_present :
  forallb (known c19_graph) c19_roots = true /\
  forallb (fun r => mem r shared_fns) c19_named_ops = true /\
  graph_closed c19_graph = true.
Proof. repeat split; vm_compute; reflexivity. Qed.

(* Constructs the translator does not recognise are recorded as write primitives of the function they occur in
   (sound over-approximation) and listed in `translator_warnings`; C19_static above is what matters: none of them
   is reachable from a shared-reference operation. The list itself is reported in the evidence, not required empty. *)

(* the graph does contain write primitives, and they are reachable from the `&mut self` API:
   the analysis is not blind (non-vacuity) *)
Theorem C19_static_nonvacuous :
  forallb (fun f => negb (no_write_reachable c19_graph f))
          ["LruCache::get"; "LruCache::get_lru"; "LruCache::touch"; "LruCache::insert";
           "LruCache::remove"; "LruCache::clear"; "LruCache::drain"; "LruCache::mutate";
           "LruCache::retain"; "LruCache::set_max_size"; "LruCache::reserve";
           "LruCache::shrink_to_fit"; "LruCache::clone"; "EntryPtr::get_mut";
           "EntryPtr::insert"; "EntryPtr::unhinge"] = true.
Proof. vm_compute; reflexivity. Qed.

(* clone: a Clone impl was found and split, its writes are rooted in a fresh local, what it returns
   is a fresh local; the implicit drops of the callees of the residual sites are edges of the source half *)
Theorem C19_clone_split :
  mem clone_src shared_fns = true /\ is_nil clone_fresh_locals = false /\
  has_write c19_graph clone_src = false /\ has_write fns "LruCache::clone" = true /\
  clone_returns_fresh = true /\
  forallb (fun c => known c19_graph (c ++ drops_suffix) &&
                    mem (c ++ drops_suffix) (callees_of c19_graph clone_src)) clone_residual_callees = true.
Proof. repeat split; vm_compute; reflexivity. Qed.

(* implicit drops: every `impl Drop` of the scanned files is called by the glue node of its type;
   no function is named like a drops-only twin (the twins do not collide with real nodes); the
   twins are there; some glue node does reach a write primitive (the drop edges are not vacuous) *)
Theorem C19_drop_glue :
  forallb (fun p => mem (snd p) (callees_of c19_graph (glue_of (fst p)))) drop_impls = true /\
  forallb (fun n => negb (has_suffix drops_suffix (fn_name n))) fns = true /\
  forallb (fun n => is_glue (fn_name n) || known c19_graph (fn_name n ++ drops_suffix)) fns = true /\
  (is_nil drop_impls = false ->
   existsb (fun n => is_glue (fn_name n) && negb (no_write_reachable c19_graph (fn_name n))) fns = true).
Proof. repeat split; vm_compute; try reflexivity; intros _; reflexivity. Qed.

Print Assumptions C19_static.
Print Assumptions C19_roots_present.
Print Assumptions C19_static_nonvacuous.
Print Assumptions C19_clone_split.
Print Assumptions C19_drop_glue.

Check C19_static : forall f, In f c19_roots ->
    forall g, Reach c19_graph f g -> has_write c19_graph g = false.
