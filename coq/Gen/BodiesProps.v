(* Layer P: the programs GENERATED from the Rust source (Gen/Bodies.v) have exactly the semantics of the
   hand-written transliterations of B/Heap.v (and B/TakingB.v, B/StepB.v, B/OpsB.v) that Layer B's theorems are
   about - for every heap and all arguments, fault behaviour included.  An edit of one of these function bodies in
   src/entry.rs, src/lib.rs, src/iter.rs changes Bodies.v (tools/body_check.py regenerates it) and breaks the
   theorem of that function here.
   Shape of every statement: what the generated program computes (heap, returned value, for the iterators also
   the cursor left in `self`) = what the hand-written definition computes.  Where a projection can be ill-formed
   (e.g. the returned value is not a cursor) it yields None INSIDE the outer Some, so that "the program ran and
   returned something else" is never confused with "the program faulted". *)
Require Import LruV.Gen.PtrLang LruV.Gen.Bodies LruV.B.OpsB LruV.B.TakingB LruV.B.StepB.
Local Open Scope string_scope.

(* ---------- the whitelist of abstracted statements, per function ----------
   A statement of a covered body that is neither a pointer statement nor one of these is an SUnknown (a fault):
   a new side effect shows up as a tag that is not listed here, or as an Unknown. *)
Definition allowed_tags : list (string * list string) :=
  [ ("EntryPtr::unhinge", []);
    ("EntryPtr::insert", []);
    ("Entry::unhinge", ["build:UnhingedEntry"]);                (* the returned UnhingedEntry { size, key, value } *)
    ("LruCache::set_head", []);
    ("LruCache::touch_ptr", []);
    ("LruCache::clear", ["drain_and_drop_entries";                (* for entry in self.table.drain() { entry.drop() } *)
                         "current_size=0"]);
    ("Drain::new", ["TakingIterator::new";                        (* let iterator = TakingIterator::new(cache): reads only, = cursor_new, see P_takingiterator_new *)
                    "current_size=0"; "table.clear_no_drop";
                    "build:Drain"]);                              (* Drain { iterator, _cache: cache } *)
    ("LruCache::move_to_table", ["make_hasher"; "collect_hashes"; "swap_tables";
                                 "for:moved-entries"]);           (* the loop; its body is the next program *)
    ("LruCache::move_to_table#loop", []);
    ("LruCache::lru_ptr", []);
    ("LruCache::mru_ptr", []);
    ("Iter::new", []); ("Iter::next", []); ("Iter::next_back", []);
    ("TakingIterator::new", []); ("TakingIterator::next", []); ("TakingIterator::next_back", []) ].

(* the translator covered exactly these functions, and understood every statement *)
Theorem P_coverage :
  map fn_name all_fns =
  [ "EntryPtr::unhinge"; "EntryPtr::insert"; "Entry::unhinge"; "LruCache::set_head"; "LruCache::touch_ptr";
    "LruCache::clear"; "Drain::new"; "LruCache::move_to_table"; "LruCache::move_to_table#loop";
    "LruCache::lru_ptr"; "LruCache::mru_ptr"; "Iter::new"; "Iter::next"; "Iter::next_back";
    "TakingIterator::new"; "TakingIterator::next"; "TakingIterator::next_back" ].
Proof. reflexivity. Qed.
Theorem P_no_unknown : translator_unknowns = [] /\ flat_map (fun f => unknowns (fn_body f)) all_fns = [].
Proof. split; reflexivity. Qed.

Theorem T_entryptr_unhinge : tags_ok allowed_tags entryptr_unhinge = true. Proof. reflexivity. Qed.
Theorem T_entryptr_insert : tags_ok allowed_tags entryptr_insert = true. Proof. reflexivity. Qed.
Theorem T_entry_unhinge : tags_ok allowed_tags entry_unhinge = true. Proof. reflexivity. Qed.
Theorem T_lrucache_set_head : tags_ok allowed_tags lrucache_set_head = true. Proof. reflexivity. Qed.
Theorem T_lrucache_touch_ptr : tags_ok allowed_tags lrucache_touch_ptr = true. Proof. reflexivity. Qed.
Theorem T_lrucache_clear : tags_ok allowed_tags lrucache_clear = true. Proof. reflexivity. Qed.
Theorem T_drain_new : tags_ok allowed_tags drain_new = true. Proof. reflexivity. Qed.
Theorem T_lrucache_move_to_table : tags_ok allowed_tags lrucache_move_to_table = true. Proof. reflexivity. Qed.
Theorem T_lrucache_move_to_table_loop : tags_ok allowed_tags lrucache_move_to_table_loop = true. Proof. reflexivity. Qed.
Theorem T_lrucache_lru_ptr : tags_ok allowed_tags lrucache_lru_ptr = true. Proof. reflexivity. Qed.
Theorem T_lrucache_mru_ptr : tags_ok allowed_tags lrucache_mru_ptr = true. Proof. reflexivity. Qed.
Theorem T_iter_new : tags_ok allowed_tags iter_new = true. Proof. reflexivity. Qed.
Theorem T_iter_next : tags_ok allowed_tags iter_next = true. Proof. reflexivity. Qed.
Theorem T_iter_next_back : tags_ok allowed_tags iter_next_back = true. Proof. reflexivity. Qed.
Theorem T_takingiterator_new : tags_ok allowed_tags takingiterator_new = true. Proof. reflexivity. Qed.
Theorem T_takingiterator_next : tags_ok allowed_tags takingiterator_next = true. Proof. reflexivity. Qed.
Theorem T_takingiterator_next_back : tags_ok allowed_tags takingiterator_next_back = true. Proof. reflexivity. Qed.

(* ---------- tactics: both sides are straight-line; compute, split on what the heap holds ---------- *)
Ltac simp := cbn; unfold eval_ptr, prevof, nextof, with_env, with_heap; cbn.
Ltac hyp_rw := repeat match goal with E : ?x = _ |- context [?x] => rewrite E end.
Ltac case_on t := let E := fresh "E" in destruct t eqn:E; repeat (simp; hyp_rw); try reflexivity.
(* split on the next thing either side is stuck on: a write or a lookup in a heap that is a variable *)
Ltac split_one :=
  match goal with
  | |- context [set_next ?h ?a ?b] => case_on (set_next h a b)
  | |- context [set_prev ?h ?a ?b] => case_on (set_prev h a b)
  | |- context [?h ?a] => is_var h; match type of h with heap => case_on (h a) end
  end.
Ltac crunch := repeat (simp; hyp_rw); try reflexivity; repeat split_one.

(* ---------- EntryPtr::unhinge = unhinge ---------- *)
Theorem P_entryptr_unhinge : forall h a,
  result (run entryptr_unhinge [VPtr a] [] h) = (h' <- unhinge h a ;; Some (h', None)).
Proof. intros h a. unfold run, unhinge. crunch. Qed.

(* ---------- EntryPtr::insert = link_between ----------
   link_between checks first that the entry itself is allocated (`let entry_mut = self.get_mut()`); in the program
   forming the reference is not an access, the writes through it are.  The outcome is the same: *)
Lemma set_next_dom h p v h1 b : set_next h p v = Some h1 -> h b = None -> h1 b = None.
Proof.
  unfold set_next. destruct (h p) eqn:Ep; [|discriminate]. intros [= <-] Hb. unfold upd.
  destruct (N.eqb_spec b p); [subst; congruence|exact Hb].
Qed.
Lemma set_prev_dom h p v h1 b : set_prev h p v = Some h1 -> h b = None -> h1 b = None.
Proof.
  unfold set_prev. destruct (h p) eqn:Ep; [|discriminate]. intros [= <-] Hb. unfold upd.
  destruct (N.eqb_spec b p); [subst; congruence|exact Hb].
Qed.
Lemma link_between_writes h a p x :
  link_between h a p x = (h1 <- set_next h p a ;; h2 <- set_prev h1 x a ;; h3 <- set_next h2 a x ;; set_prev h3 a p).
Proof.
  unfold link_between. destruct (h a) eqn:Ea; cbn [bind]; [reflexivity|].
  destruct (set_next h p a) as [h1|] eqn:E1; cbn [bind]; [|reflexivity].
  destruct (set_prev h1 x a) as [h2|] eqn:E2; cbn [bind]; [|reflexivity].
  pose proof (set_prev_dom _ _ _ _ a E2 (set_next_dom _ _ _ _ a E1 Ea)) as H2.
  unfold set_next at 1. now rewrite H2.
Qed.

Theorem P_entryptr_insert : forall h a p x,
  result (run entryptr_insert [VPtr a; VPtr p; VPtr x] [] h) = (h' <- link_between h a p x ;; Some (h', None)).
Proof. intros h a p x. rewrite link_between_writes. unfold run. crunch. Qed.

(* ---------- Entry::unhinge (the entry has been taken out of its bucket and is held by value) ---------- *)
Theorem P_entry_unhinge : forall h n,
  result (run entry_unhinge [VNode n] [] h) =
  (h1 <- set_next h (nprev n) (nnext n) ;; h2 <- set_prev h1 (nnext n) (nprev n) ;; Some (h2, None)).
Proof. intros h n. unfold run. crunch. Qed.
(* ... which is `unhinge` of the bucket it was read from *)
Theorem P_entry_unhinge_at : forall h a n, h a = Some n ->
  result (run entry_unhinge [VNode n] [] h) = (h' <- unhinge h a ;; Some (h', None)).
Proof.
  intros h a n Ha. rewrite P_entry_unhinge. unfold unhinge. rewrite Ha. cbn [bind].
  destruct (set_next h (nprev n) (nnext n)); cbn [bind]; reflexivity.
Qed.

(* ---------- LruCache::set_head = set_head (the call of EntryPtr::insert is executed, not assumed) ---------- *)
Theorem P_lrucache_set_head : forall h seal a,
  result (run lrucache_set_head [VPtr seal; VPtr a] [] h) = (h' <- set_head h seal a ;; Some (h', None)).
Proof.
  intros h seal a. unfold set_head, run. simp. case_on (h seal). rewrite link_between_writes. crunch.
Qed.

(* ---------- LruCache::touch_ptr = touch_ptr ---------- *)
Theorem P_lrucache_touch_ptr : forall h seal a,
  result (run lrucache_touch_ptr [VPtr seal; VPtr a] [] h) = (h' <- touch_ptr h seal a ;; Some (h', None)).
Proof.
  intros h seal a. unfold touch_ptr, unhinge, set_head, run. crunch.
  all: rewrite ?link_between_writes; crunch.
Qed.

(* ---------- LruCache::clear and Drain::new: the two writes that empty the list ---------- *)
Definition seal_reset (h : heap) (seal : addr) : option heap :=
  h1 <- set_next h seal seal ;; set_prev h1 seal seal.
(* this is what OpsB.b_reset does to the links *)
Theorem b_reset_seal_reset : forall g,
  b_reset g = (h2 <- seal_reset (gh g) (gseal g) ;;
               Some {| gh := fold_left free (glist g) h2; gseal := gseal g; glist := [] |}).
Proof. intros g. unfold b_reset, seal_reset. destruct (set_next (gh g) (gseal g) (gseal g)); reflexivity. Qed.

Theorem P_lrucache_clear : forall h seal,
  result (run lrucache_clear [VPtr seal] [] h) = (h' <- seal_reset h seal ;; Some (h', None)).
Proof. intros h seal. unfold run, seal_reset. crunch. Qed.
Theorem P_drain_new : forall h seal,
  result (run drain_new [VPtr seal] [] h) = (h' <- seal_reset h seal ;; Some (h', None)).
Proof. intros h seal. unfold run, seal_reset. crunch. Qed.
(* the cursor of the drain is taken BEFORE the list is emptied *)
Theorem P_drain_new_cursor_first :
  hd_error (flatten (fn_body drain_new)) = Some (SOpaque "TakingIterator::new").
Proof. reflexivity. Qed.

(* ---------- LruCache::move_to_table ----------
   outside the loop nothing touches the pointer structure *)
Theorem P_lrucache_move_to_table : forall h seal,
  result (run lrucache_move_to_table [VPtr seal] [] h) = Some (h, None).
Proof. reflexivity. Qed.
(* the loop body, for the entry `n` the old table's iterator moved out of bucket `a` (the old bucket is modelled
   as gone at once, as in Heap.move) and the bucket `a'` the new table picks = move *)
Theorem P_lrucache_move_to_table_loop : forall h a a',
  move h a a' = match h a with
                | Some n => h' <- result (run lrucache_move_to_table_loop [VNode n] [a'] (free h a)) ;; Some (fst h')
                | None => None
                end.
Proof. intros h a a'. unfold move, run. case_on (h a). crunch. Qed.
Theorem P_lrucache_move_to_table_loop_result : forall h a a' n, h a = Some n ->
  result (run lrucache_move_to_table_loop [VNode n] [a'] (free h a)) = (h' <- move h a a' ;; Some (h', None)).
Proof. intros h a a' n Ha. unfold move, run. rewrite Ha. crunch. Qed.

(* ---------- LruCache::lru_ptr / mru_ptr = StepB.b_lru / b_mru ---------- *)
Definition ptr_opt (o : option addr) : rval := match o with Some p => RVSomePtr p | None => RVNone end.
Theorem P_lrucache_lru_ptr : forall g,
  result (run lrucache_lru_ptr [VPtr (gseal g)] [] (gh g)) = (r <- b_lru g ;; Some (gh g, Some (ptr_opt r))).
Proof.
  intros [h seal l]. unfold b_lru, run. cbn [gh gseal]. crunch. destruct (N.eqb (nprev n) seal); reflexivity.
Qed.
Theorem P_lrucache_mru_ptr : forall g,
  result (run lrucache_mru_ptr [VPtr (gseal g)] [] (gh g)) = (r <- b_mru g ;; Some (gh g, Some (ptr_opt r))).
Proof.
  intros [h seal l]. unfold b_mru, run. cbn [gh gseal]. crunch. destruct (N.eqb (nnext n) seal); reflexivity.
Qed.

(* ---------- the cursors of src/iter.rs ----------
   Heap.cursor keeps `next` as an option (None = null) and `next_back` as an address, 0 standing for null *)
Definition back_addr (b : option addr) : addr := match b with Some x => x | None => 0 end.
Definition cursor_of_rval (r : option rval) : option cursor :=
  match r with Some (RVCursor n b) => Some {| c_next := n; c_back := back_addr b |} | _ => None end.
Definition cursor_args (s : cursor) : list value :=
  [match c_next s with Some a => VPtr a | None => VNull end; VPtr (c_back s)].
Definition cursor_of_env (en : envt) : option cursor :=
  match lookup "self.next" en, lookup "self.next_back" en with
  | Some v1, Some v2 =>
      match as_ptr v1, as_ptr v2 with
      | Some n, Some b => Some {| c_next := n; c_back := back_addr b |}
      | _, _ => None
      end
  | _, _ => None
  end.
Definition yield_ref (r : option rval) : option (option addr) :=
  match r with Some RVNone => Some None | Some (RVSomeRefs a) => Some (Some a) | _ => None end.
Definition yield_kv (r : option rval) : option (option (key * val)) :=
  match r with Some RVNone => Some None | Some (RVSomeKV k v) => Some (Some (k, v)) | _ => None end.
(* what next() / next_back() leave behind: heap, yielded item, the cursor in `self` *)
Definition obs_iter (o : option state) :=
  match o with Some st => Some (hp st, yield_ref (ret st), cursor_of_env (env st)) | None => None end.
Definition obs_taking (o : option state) :=
  match o with Some st => Some (hp st, yield_kv (ret st), cursor_of_env (env st)) | None => None end.
Definition obs_new (o : option state) :=
  match o with Some st => Some (hp st, cursor_of_rval (ret st)) | None => None end.

(* Iter::new, TakingIterator::new = cursor_new *)
Theorem P_iter_new : forall h seal e,
  obs_new (run iter_new [VPtr seal; VBool e] [] h) = (c <- cursor_new h seal e ;; Some (h, Some c)).
Proof. intros h seal [|]; unfold run, cursor_new; crunch. Qed.
Theorem P_takingiterator_new : forall h seal e,
  obs_new (run takingiterator_new [VPtr seal; VBool e] [] h) = (c <- cursor_new h seal e ;; Some (h, Some c)).
Proof. intros h seal [|]; unfold run, cursor_new; crunch. Qed.

(* Iter::next = it_next, Iter::next_back = it_next_back *)
Theorem P_iter_next : forall h s,
  obs_iter (run iter_next (cursor_args s) [] h) = (r <- it_next h s ;; Some (h, Some (fst r), Some (snd r))).
Proof.
  intros h [[a|] b]; unfold run, it_next, cursor_args; cbn [c_next c_back]; [|reflexivity].
  simp. destruct (N.eqb a b); crunch.
Qed.
Theorem P_iter_next_back : forall h s,
  obs_iter (run iter_next_back (cursor_args s) [] h) = (r <- it_next_back h s ;; Some (h, Some (fst r), Some (snd r))).
Proof.
  intros h [[a|] b]; unfold run, it_next_back, cursor_args; cbn [c_next c_back]; [|reflexivity].
  simp. destruct (N.eqb b a); crunch.
Qed.

(* TakingIterator::next = tk_next, TakingIterator::next_back = tk_next_back (B/TakingB.v) *)
Theorem P_takingiterator_next : forall h s,
  obs_taking (run takingiterator_next (cursor_args s) [] h) =
  (r <- tk_next h s ;; Some (fst (fst r), Some (snd (fst r)), Some (snd r))).
Proof.
  intros h [[a|] b]; unfold run, tk_next, take_at, cursor_args; cbn [c_next c_back]; [|reflexivity].
  simp. case_on (h a). case_on (npay n). destruct (N.eqb a b); crunch.
Qed.
Theorem P_takingiterator_next_back : forall h s,
  obs_taking (run takingiterator_next_back (cursor_args s) [] h) =
  (r <- tk_next_back h s ;; Some (fst (fst r), Some (snd (fst r)), Some (snd r))).
Proof.
  intros h [[a|] b]; unfold run, tk_next_back, take_at, cursor_args; cbn [c_next c_back]; [|reflexivity].
  simp. case_on (h b). case_on (npay n). destruct (N.eqb b a); crunch.
Qed.

(* ---------- no axioms ---------- *)
Print Assumptions P_coverage.
Print Assumptions P_no_unknown.
Print Assumptions T_entryptr_unhinge.
Print Assumptions T_entryptr_insert.
Print Assumptions T_entry_unhinge.
Print Assumptions T_lrucache_set_head.
Print Assumptions T_lrucache_touch_ptr.
Print Assumptions T_lrucache_clear.
Print Assumptions T_drain_new.
Print Assumptions T_lrucache_move_to_table.
Print Assumptions T_lrucache_move_to_table_loop.
Print Assumptions T_lrucache_lru_ptr.
Print Assumptions T_lrucache_mru_ptr.
Print Assumptions T_iter_new.
Print Assumptions T_iter_next.
Print Assumptions T_iter_next_back.
Print Assumptions T_takingiterator_new.
Print Assumptions T_takingiterator_next.
Print Assumptions T_takingiterator_next_back.
Print Assumptions P_entryptr_unhinge.
Print Assumptions P_entryptr_insert.
Print Assumptions P_entry_unhinge.
Print Assumptions P_entry_unhinge_at.
Print Assumptions P_lrucache_set_head.
Print Assumptions P_lrucache_touch_ptr.
Print Assumptions b_reset_seal_reset.
Print Assumptions P_lrucache_clear.
Print Assumptions P_drain_new.
Print Assumptions P_drain_new_cursor_first.
Print Assumptions P_lrucache_move_to_table.
Print Assumptions P_lrucache_move_to_table_loop.
Print Assumptions P_lrucache_move_to_table_loop_result.
Print Assumptions P_lrucache_lru_ptr.
Print Assumptions P_lrucache_mru_ptr.
Print Assumptions P_iter_new.
Print Assumptions P_takingiterator_new.
Print Assumptions P_iter_next.
Print Assumptions P_iter_next_back.
Print Assumptions P_takingiterator_next.
Print Assumptions P_takingiterator_next_back.
