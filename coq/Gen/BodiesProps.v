(* Layer P: the programs GENERATED from the Rust source (Gen/Bodies.v) have exactly the semantics of the
   hand-written transliterations of B/Heap.v (and B/TakingB.v, B/StepB.v, B/OpsB.v) that Layer B's theorems are
   about - for every heap and all arguments, fault behaviour included.  An edit of one of these function bodies in
   src/entry.rs, src/lib.rs, src/iter.rs changes Bodies.v (tools/body_check.py regenerates it) and breaks the
   theorem of that function here.
   Shape of every statement: what the generated program computes (heap, returned value, for the iterators also
   the cursor left in `self`) = what the hand-written definition computes.  Where a projection can be ill-formed
   (e.g. the returned value is not a cursor) it yields None INSIDE the outer Some, so that "the program ran and
   returned something else" is never confused with "the program faulted". *)
Require Import LruV.Gen.PtrLang LruV.Gen.Bodies LruV.B.OpsB LruV.B.TakingB LruV.B.StepB.
Local Open Scope string_scope.

(* ---------- the whitelist of abstracted statements, per function ----------
   A statement of a covered body that is neither a pointer statement nor one of these is an SUnknown (a fault):
   a new side effect shows up as a tag that is not listed here, or as an Unknown. *)
Definition allowed_tags : list (string * list string) :=
  [ ("EntryPtr::unhinge", []);
    ("EntryPtr::insert", []);
    ("Entry::unhinge", ["build:UnhingedEntry"]);                (* the returned UnhingedEntry { size, key, value } *)
    ("LruCache::set_head", []);
    ("LruCache::touch_ptr", []);
    ("LruCache::clear", ["drain_and_drop_entries";                (* for entry in self.table.drain() { entry.drop() } *)
                         "current_size=0"]);
    ("Drain::new", ["TakingIterator::new";                        (* let iterator = TakingIterator::new(cache): reads only, = cursor_new, see P_takingiterator_new *)
                    "current_size=0"; "table.clear_no_drop";
                    "build:Drain"]);                              (* Drain { iterator, _cache: cache } *)
    ("LruCache::move_to_table", ["make_hasher"; "collect_hashes"; "swap_tables";
                                 "for:moved-entries"]);           (* the loop; its body is the next program *)
    ("LruCache::move_to_table#loop", []);
    ("LruCache::lru_ptr", []);
    ("LruCache::mru_ptr", []);
    ("Iter::new", []); ("Iter::next", []); ("Iter::next_back", []);
    ("TakingIterator::new", []); ("TakingIterator::next", []); ("TakingIterator::next_back", []) ].

(* the translator covered exactly these functions, and understood every statement *)
Theorem P_coverage :
  map fn_name all_fns =
  [ "EntryPtr::unhinge"; "EntryPtr::insert"; "Entry::unhinge"; "LruCache::set_head"; "LruCache::touch_ptr";
    "LruCache::clear"; "Drain::new"; "LruCache::move_to_table"; "LruCache::move_to_table#loop";
    "LruCache::lru_ptr"; "LruCache::mru_ptr"; "Iter::new"; "Iter::next"; "Iter::next_back";
    "TakingIterator::new"; "TakingIterator::next"; "TakingIterator::next_back" ].
Proof. reflexivity. Qed.
Theorem P_no_unknown : translator_unknowns = [] /\ flat_map (fun f => unknowns (fn_body f)) all_fns = [].
Proof. split; reflexivity. Qed.

Theorem T_entryptr_unhinge : tags_ok allowed_tags entryptr_unhinge = true. Proof. reflexivity. Qed.
Theorem T_entryptr_insert : tags_ok allowed_tags entryptr_insert = true. Proof. reflexivity. Qed.
Theorem T_entry_unhinge : tags_ok allowed_tags entry_unhinge = true. Proof. reflexivity. Qed.
Theorem T_lrucache_set_head : tags_ok allowed_tags lrucache_set_head = true. Proof. reflexivity. Qed.
Theorem T_lrucache_touch_ptr : tags_ok allowed_tags lrucache_touch_ptr = true. Proof. reflexivity. Qed.
Theorem T_lrucache_clear : tags_ok allowed_tags lrucache_clear = true. Proof. reflexivity. Qed.
Theorem T_drain_new : tags_ok allowed_tags drain_new = true. Proof. reflexivity. Qed.
Theorem T_lrucache_move_to_table : tags_ok allowed_tags lrucache_move_to_table = true. Proof. reflexivity. Qed.
Theorem T_lrucache_move_to_table_loop : tags_ok allowed_tags lrucache_move_to_table_loop = true. Proof. reflexivity. Qed.
Theorem T_lrucache_lru_ptr : tags_ok allowed_tags lrucache_lru_ptr = true. Proof. reflexivity. Qed.
Theorem T_lrucache_mru_ptr : tags_ok allowed_tags lrucache_mru_ptr = true. Proof. reflexivity. Qed.
Theorem T_iter_new : tags_ok allowed_tags iter_new = true. Proof. reflexivity. Qed.
Theorem T_iter_next : tags_ok allowed_tags iter_next = true. Proof. reflexivity. Qed.
Theorem T_iter_next_back : tags_ok allowed_tags iter_next_back = true. Proof. reflexivity. Qed.
Theorem T_takingiterator_new : tags_ok allowed_tags takingiterator_new = true. Proof. reflexivity. Qed.
Theorem T_takingiterator_next : tags_ok allowed_tags takingiterator_next = true. Proof. reflexivity. Qed.
Theorem T_takingiterator_next_back : tags_ok allowed_tags takingiterator_next_back = true. Proof. reflexivity. Qed.

(* ---------- tactics: both sides are straight-line; compute, split on what the heap holds ---------- *)
Ltac simp := cbn; unfold prevof, nextof, with_env, with_heap; cbn.
Ltac hyp_rw := repeat match goal with E : ?x = _ |- context [?x] => rewrite E end.
Ltac case_on t := let E := fresh "E" in destruct t eqn:E; repeat (simp; hyp_rw); try reflexivity.

(* ---------- EntryPtr::unhinge = unhinge ---------- *)
Theorem P_entryptr_unhinge : forall h a,
  result (run entryptr_unhinge [VPtr a] [] h) = (h' <- unhinge h a ;; Some (h', None)).
Proof.
  intros h a. unfold run, unhinge. simp.
  case_on (h a).
  case_on (set_next h (nprev n) (nnext n)).
  case_on (set_prev h0 (nnext n) (nprev n)).
Qed.

(* ---------- EntryPtr::insert = link_between ----------
   link_between checks first that the entry itself is allocated (`let entry_mut = self.get_mut()`); in the program
   forming the reference is not an access, the writes through it are.  The outcome is the same: *)
Lemma set_next_dom h p v h1 b : set_next h p v = Some h1 -> h b = None -> h1 b = None.
Proof.
  unfold set_next. destruct (h p) eqn:Ep; [|discriminate]. intros [= <-] Hb. unfold upd.
  destruct (N.eqb_spec b p); [subst; congruence|exact Hb].
Qed.
Lemma set_prev_dom h p v h1 b : set_prev h p v = Some h1 -> h b = None -> h1 b = None.
Proof.
  unfold set_prev. destruct (h p) eqn:Ep; [|discriminate]. intros [= <-] Hb. unfold upd.
  destruct (N.eqb_spec b p); [subst; congruence|exact Hb].
Qed.
Lemma link_between_writes h a p x :
  link_between h a p x = (h1 <- set_next h p a ;; h2 <- set_prev h1 x a ;; h3 <- set_next h2 a x ;; set_prev h3 a p).
Proof.
  unfold link_between. destruct (h a) eqn:Ea; cbn [bind]; [reflexivity|].
  destruct (set_next h p a) as [h1|] eqn:E1; cbn [bind]; [|reflexivity].
  destruct (set_prev h1 x a) as [h2|] eqn:E2; cbn [bind]; [|reflexivity].
  pose proof (set_prev_dom _ _ _ _ a E2 (set_next_dom _ _ _ _ a E1 Ea)) as H2.
  unfold set_next at 1. now rewrite H2.
Qed.

Theorem P_entryptr_insert : forall h a p x,
  result (run entryptr_insert [VPtr a; VPtr p; VPtr x] [] h) = (h' <- link_between h a p x ;; Some (h', None)).
Proof.
  intros h a p x. rewrite link_between_writes. unfold run. simp.
  case_on (set_next h p a).
  case_on (set_prev h0 x a).
  case_on (set_next h1 a x).
  case_on (set_prev h2 a p).
Qed.

(* ---------- Entry::unhinge (the entry has been taken out of its bucket and is held by value) ---------- *)
Theorem P_entry_unhinge : forall h n,
  result (run entry_unhinge [VNode n] [] h) =
  (h1 <- set_next h (nprev n) (nnext n) ;; h2 <- set_prev h1 (nnext n) (nprev n) ;; Some (h2, None)).
Proof.
  intros h n. unfold run. simp.
  case_on (set_next h (nprev n) (nnext n)).
  case_on (set_prev h0 (nnext n) (nprev n)).
Qed.
(* ... which is `unhinge` of the bucket it was read from *)
Theorem P_entry_unhinge_at : forall h a n, h a = Some n ->
  result (run entry_unhinge [VNode n] [] h) = (h' <- unhinge h a ;; Some (h', None)).
Proof.
  intros h a n Ha. rewrite P_entry_unhinge. unfold unhinge. rewrite Ha. cbn [bind].
  destruct (set_next h (nprev n) (nnext n)); cbn [bind]; reflexivity.
Qed.

(* ---------- LruCache::set_head = set_head ---------- *)
Theorem P_lrucache_set_head : forall h seal a,
  result (run lrucache_set_head [VPtr seal; VPtr a] [] h) = (h' <- set_head h seal a ;; Some (h', None)).
Proof.
  intros h seal a. unfold set_head, run. simp.
  case_on (h seal). rewrite link_between_writes.
  case_on (set_next h seal a).
  case_on (set_prev h0 (nnext n) a).
  case_on (set_next h1 a (nnext n)).
  case_on (set_prev h2 a seal).
Qed.

(* ---------- LruCache::touch_ptr = touch_ptr ---------- *)
Theorem P_lrucache_touch_ptr : forall h seal a,
  result (run lrucache_touch_ptr [VPtr seal; VPtr a] [] h) = (h' <- touch_ptr h seal a ;; Some (h', None)).
Proof.
  intros h seal a. unfold touch_ptr, unhinge, set_head, run. simp.
  case_on (h a).
  case_on (set_next h (nprev n) (nnext n)).
  case_on (set_prev h0 (nnext n) (nprev n)).
  case_on (h1 seal). rewrite link_between_writes.
  case_on (set_next h1 seal a).
  case_on (set_prev h2 (nnext n0) a).
  case_on (set_next h3 a (nnext n0)).
  case_on (set_prev h4 a seal).
Qed.
