(* Layer P2: the programs GENERATED from the bodies of the composite operations of src/lib.rs (Gen/OpBodies.v, by
   `sigdump --ops`) have exactly the semantics of the hand-written definitions of B/StepB.v that Layer B's theorems are
   about - for EVERY state, argument and oracle (no bound, no invariant assumed), fault behaviour included.
   An edit of one of these bodies (a statement moved, a different eviction target, a dropped `current_size -= ..`)
   changes OpBodies.v (tools/op_check.py regenerates it) and breaks the theorem of that function here.

   Shape of the statements.  For a public operation f with model step p:
       run_op E VS oB f args proj b  =  stepB E VS b p oB'
     - `proj` (defined next to each theorem) reads the value the program returns as Layer A's `out`;
     - the events are read off the program's log (ev_of_log): hashes computed, objects dropped, entries evicted,
       table rebuilt; the log also records every assignment of self.current_size / self.max_size (LWrite), which is
       no event of Layer A: the P2_<f>_call theorems state the log itself, so the ORDER of the bookkeeping relative
       to the points where user code runs (hashing, Drop) is pinned even where the final cache is the same;
     - oB' is oB, except for the three operations whose model adds the oracle's tombstone count to the table even
       when nothing was erased (set_max_size, insert, mutate): there oB' = tomb_if c oB with c = "the operation erases
       something", an explicit Boolean of the state (OpLang charges the tombstones at the first erasure);
     - insert / try_insert / insert_unchecked assume o_alloc (ob oB) = true, as B/StepB.v does for the growth inside an
       insertion (t_insert calls t_alloc with `true`; a refused allocation there aborts and is excluded from traces);
     - reserve / shrink_to / shrink_to_fit: a panic is a fault in OpLang and the outcome OPanic in StepB.v: the statement is
       run_op .. = no_panic (stepB ..).
   For an internal function the statement is about `call_fn` in an arbitrary caller state (P2_<f>_call).
   No name of a local variable or parameter of the source occurs in this file. *)
Require Import LruV.Gen.OpLang LruV.Gen.OpBodies.
Require Import Lia.
Local Open Scope string_scope.
Local Open Scope list_scope.
Local Open Scope N_scope.



Lemma entry_at_unfold h a :
  entry_at h a = match h a with
                 | Some n => match npay n with PLive k v => Some {| ek := k; ev := v; es := nsize n |} | _ => None end
                 | None => None end.
Proof. reflexivity. Qed.
Lemma unhinge_split h a n : h a = Some n ->
  unhinge h a = (h1 <- set_next h (nprev n) (nnext n) ;; set_prev h1 (nnext n) (nprev n)).
Proof. intros H. unfold unhinge. rewrite H. reflexivity. Qed.

(* ---------- small facts about the model's vocabulary ---------- *)
Lemma find_in_sound h q : forall l a e, find_in h q l = Some (a, e) -> entry_at h a = Some e.
Proof.
  induction l as [|x l IH]; intros a e; cbn [find_in]; [discriminate|].
  destruct (entry_at h x) as [e0|] eqn:Hx; [|apply IH].
  destruct (kid (ek e0) =? q); [|apply IH]. intros [= <- <-]. exact Hx.
Qed.
Lemma b_find_sound g q a e : b_find g q = Some (a, e) -> entry_at (gh g) a = Some e.
Proof. apply find_in_sound. Qed.
Lemma entry_at_node h a e : entry_at h a = Some e -> exists n, h a = Some n /\ npay n = PLive (ek e) (ev e) /\ nsize n = es e.
Proof.
  rewrite entry_at_unfold. destruct (h a) as [n|]; [|discriminate]. destruct (npay n) as [|k v|k v] eqn:Hp; try discriminate.
  intros [= <-]. exists n. cbn. auto.
Qed.
Lemma touch_entry_at g a g' x : b_touch g a = Some g' -> entry_at (gh g') x = entry_at (gh g) x.
Proof.
  unfold b_touch, touch_ptr. destruct (unhinge (gh g) a) as [h1|] eqn:H1; [|discriminate]. cbn [bind].
  unfold set_head. destruct (nextof h1 (gseal g)) as [y|]; [|discriminate]. cbn [bind].
  destruct (link_between h1 a (gseal g) y) as [h2|] eqn:H2; [|discriminate]. cbn [bind]. intros [= <-]. cbn [gh].
  apply entry_at_same. eapply same_data_trans; [eapply unhinge_data; exact H1|eapply link_data; exact H2].
Qed.
Lemma t_erase_0 t : t_erase t 0 = t.
Proof. destruct t. unfold t_erase. cbn. now rewrite N.add_0_r. Qed.


(* ---------- the closure of mutate writes the value in place: key, size and links of the bucket stay ---------- *)
Lemma upd_same h a n : upd h a n a = Some n.
Proof. unfold upd. now rewrite N.eqb_refl. Qed.
Lemma upd_other h a n x : x <> a -> upd h a n x = h x.
Proof. intros H. unfold upd. destruct (N.eqb_spec x a); [contradiction|reflexivity]. Qed.
Definition with_val (e : entry) (v' : val) : entry := {| ek := ek e; ev := v'; es := es e |}.
Lemma set_val_some g a e v' : entry_at (gh g) a = Some e ->
  exists n, gh g a = Some n /\ npay n = PLive (ek e) (ev e) /\
    b_set_val g a (ek e) v' =
    Some {| gh := upd (gh g) a {| nprev := nprev n; nnext := nnext n; nsize := es e; npay := PLive (ek e) v' |};
            gseal := gseal g; glist := glist g |}.
Proof.
  intros He. destruct (entry_at_node _ _ _ He) as (n & Hn & Hp & Hs). exists n. repeat split; auto.
  unfold b_set_val, set_pay. rewrite Hn, Hs. reflexivity.
Qed.
Lemma entry_at_upd_val h a p x e v' :
  entry_at (upd h a {| nprev := p; nnext := x; nsize := es e; npay := PLive (ek e) v' |}) a = Some (with_val e v').
Proof. rewrite entry_at_unfold, upd_same. reflexivity. Qed.
Lemma find_in_upd_val h a n e v' q : h a = Some n -> npay n = PLive (ek e) (ev e) ->
  forall l, find_in (upd h a {| nprev := nprev n; nnext := nnext n; nsize := es e; npay := PLive (ek e) v' |}) q l =
            match find_in h q l with Some (x, e0) => Some (x, if x =? a then with_val e v' else e0) | None => None end.
Proof.
  intros Hn Hp. induction l as [|x l IH]; cbn [find_in]; [reflexivity|].
  destruct (N.eqb_spec x a) as [->|Hx].
  - rewrite entry_at_upd_val. rewrite (entry_at_unfold h a), Hn, Hp. cbn [with_val ek].
    destruct (kid (ek e) =? q); [now rewrite N.eqb_refl|exact IH].
  - rewrite (entry_at_unfold _ x), upd_other by exact Hx. rewrite <- entry_at_unfold.
    destruct (entry_at h x) as [e0|]; [|exact IH]. destruct (kid (ek e0) =? q); [|exact IH].
    destruct (N.eqb_spec x a); [contradiction|reflexivity].
Qed.
Lemma sizeof_upd_same h a n : sizeof_node (upd h a n) a = Some (nsize n).
Proof. unfold sizeof_node. now rewrite upd_same. Qed.
Lemma b_find_upd_val g a n e v' q : b_find g q = Some (a, e) -> gh g a = Some n -> npay n = PLive (ek e) (ev e) ->
  b_find {| gh := upd (gh g) a {| nprev := nprev n; nnext := nnext n; nsize := es e; npay := PLive (ek e) v' |};
            gseal := gseal g; glist := glist g |} q = Some (a, with_val e v').
Proof.
  intros Hf Hn Hp. unfold b_find in *. cbn [gh glist]. rewrite (find_in_upd_val _ _ _ _ _ _ Hn Hp), Hf. now rewrite N.eqb_refl.
Qed.
Lemma set_val_facts g a e v' q : b_find g q = Some (a, e) ->
  exists gm, b_set_val g a (ek e) v' = Some gm /\ entry_at (gh gm) a = Some (with_val e v') /\
             sizeof_node (gh gm) a = Some (es e) /\ b_find gm q = Some (a, with_val e v').
Proof.
  intros Hf. destruct (set_val_some g a e v' (find_in_sound _ _ _ _ _ Hf)) as (n & Hn & Hp & Hsv).
  eexists. split; [exact Hsv|]. cbn [gh]. split; [apply entry_at_upd_val|]. split; [apply sizeof_upd_same|].
  apply (b_find_upd_val _ _ _ _ _ _ Hf Hn Hp).
Qed.
Lemma sub64_val a b c : sub64 a b = Some c -> c = a - b.
Proof. unfold sub64. destruct (b <=? a); [intros [= <-]; reflexivity|discriminate]. Qed.
Lemma add64_val a b c : add64 a b = Some c -> c = a + b.
Proof. unfold add64. destruct (a + b <? W); [intros [= <-]; reflexivity|discriminate]. Qed.

(* ---------- move_to_table keeps the seal, the number of entries, and an unallocated seal unallocated ---------- *)
Lemma set_next_none h p v h1 x : set_next h p v = Some h1 -> h x = None -> h1 x = None.
Proof.
  unfold set_next. destruct (h p) eqn:Ep; [|discriminate]. intros [= <-] Hb. unfold upd.
  destruct (N.eqb_spec x p); [subst; congruence|exact Hb].
Qed.
Lemma set_prev_none h p v h1 x : set_prev h p v = Some h1 -> h x = None -> h1 x = None.
Proof.
  unfold set_prev. destruct (h p) eqn:Ep; [|discriminate]. intros [= <-] Hb. unfold upd.
  destruct (N.eqb_spec x p); [subst; congruence|exact Hb].
Qed.
Lemma moves_chk_inv : forall pairs g g', b_moves_chk g pairs = Some g' ->
  gseal g' = gseal g /\ List.length (glist g') = List.length (glist g) /\ (gh g (gseal g) = None -> gh g' (gseal g) = None).
Proof.
  induction pairs as [|[a a'] r IH]; intros g g'; cbn [b_moves_chk]; [intros [= <-]; auto|].
  destruct (negb (mem_addr a (glist g))); [discriminate|].
  destruct (mem_addr a' (gseal g :: glist g)) eqn:Hm; [discriminate|].
  unfold b_move. destruct (move (gh g) a a') as [h'|] eqn:Hmv; [|discriminate]. cbn [bind]. intros H.
  destruct (IH _ _ H) as (H1 & H2 & H3). cbn [gseal glist gh] in *. rewrite map_length in H2. repeat split; auto.
  intros Hs. apply H3. unfold move in Hmv. destruct (gh g a) as [n|] eqn:Ha; [|discriminate]. cbn [bind] in Hmv.
  destruct (set_next (upd (free (gh g) a) a' n) (nprev n) a') as [h1|] eqn:E1; [|discriminate]. cbn [bind] in Hmv.
  eapply set_prev_none; [exact Hmv|]. eapply set_next_none; [exact E1|].
  unfold mem_addr in Hm. cbn [existsb] in Hm. apply orb_false_iff in Hm as [Hm _].
  unfold upd, free. rewrite N.eqb_sym, Hm. destruct (gseal g =? a); [reflexivity|exact Hs].
Qed.
Lemma t_alloc_tombs E n a t : t_alloc E n a = AOk t -> tombs t = 0.
Proof.
  unfold t_alloc. destruct (n =? 0); [intros [= <-]; reflexivity|]. destruct (c2b n); [|discriminate].
  destruct (negb (layout_ok E n0)); [discriminate|]. destruct a; [intros [= <-]; reflexivity|discriminate].
Qed.

#[local] Arguments b_find : simpl never.
#[local] Arguments b_lru : simpl never.
#[local] Arguments b_mru : simpl never.
#[local] Arguments b_remove : simpl never.
#[local] Arguments b_touch : simpl never.
#[local] Arguments b_insert_new : simpl never.
#[local] Arguments b_set_size : simpl never.
#[local] Arguments b_set_val : simpl never.
#[local] Arguments b_moves_chk : simpl never.
#[local] Arguments b_eject : simpl never.
#[local] Arguments esz : simpl never.
#[local] Arguments msz : simpl never.
#[local] Arguments add64 : simpl never.
#[local] Arguments sub64 : simpl never.
#[local] Arguments mul64 : simpl never.
#[local] Arguments t_alloc : simpl never.
#[local] Arguments t_insert : simpl never.
#[local] Arguments t_erase : simpl never.
#[local] Arguments capacity : simpl never.
#[local] Arguments growth_left : simpl never.
#[local] Arguments entry_at : simpl never.
#[local] Arguments set_head : simpl never.
#[local] Arguments unhinge : simpl never.
#[local] Arguments set_next : simpl never.
#[local] Arguments set_prev : simpl never.
#[local] Arguments nextof : simpl never.
#[local] Arguments prevof : simpl never.
#[local] Arguments sizeof_node : simpl never.
#[local] Arguments remove_addr : simpl never.
#[local] Arguments mem_addr : simpl never.
#[local] Arguments free : simpl never.
#[local] Arguments upd : simpl never.
#[local] Arguments call_fn : simpl never.
#[local] Arguments ev_of_log : simpl never.

Section S.
Variables (E VS : N) (oB : oracleB).
Notation callf := (call_fn E VS oB).

Ltac case_on t := let H := fresh "H" in destruct t eqn:H; cbn; try reflexivity.
Ltac callr lem := rewrite exec_call; cbn; rewrite lem; cbn.
(* normal form of a state expression: call-by-need, so that nested with_* do not duplicate their argument *)
Ltac norm := lazy beta iota zeta delta [leave leave_block with_ret with_env add_log with_cs with_g with_cur with_max with_tb enter
                                       env cs charged lg ret fst snd].

(* the writes of the two counters, as they appear in the log *)
Definition w_cur : logitem := LWrite "current_size".
Definition w_max : logitem := LWrite "max_size".
(* the table accounting after an erasure *)
Definition tb_charged (ch : bool) (t : tbl) : tbl := if ch then t else t_erase t (o_tomb (ob oB)).

Theorem P2_lrucache_remove_metadata_call a n st :
  callf lrucache_remove_metadata [VEntry (Some a) n] st =
  (let b := cs st in
   h1 <- set_next (gh (bg b)) (nprev n) (nnext n) ;; h2 <- set_prev h1 (nnext n) (nprev n) ;;
   match npay n with
   | PLive k v => c <- sub64 (bcur b) (nsize n) ;;
        Some (VKV {| ek := k; ev := v; es := nsize n |},
              {| env := env st; cs := {| bg := {| gh := free h2 a; gseal := gseal (bg b); glist := glist (bg b) |}; bcur := c; bmax := bmax b; btb := btb b |};
                 charged := charged st; lg := lg st ++ [w_cur]; ret := ret st |})
   | _ => None end).
Proof.
  destruct st as [en b ch l r]. unfold call_fn, lrucache_remove_metadata. cbn.
  case_on (set_next (gh (bg b)) (nprev n) (nnext n)).
  case_on (set_prev h (nnext n) (nprev n)).
  case_on (npay n).
  case_on (sub64 (bcur b) (nsize n)).
Qed.

Theorem P2_lrucache_remove_ptr_call a st :
  callf lrucache_remove_ptr [VPtr a] st =
  (let b := cs st in
   e <- entry_at (gh (bg b)) a ;; g' <- b_remove (bg b) a ;; c <- sub64 (bcur b) (es e) ;;
   Some (VKV e, {| env := env st; cs := {| bg := g'; bcur := c; bmax := bmax b; btb := tb_charged (charged st) (btb b) |};
                   charged := true; lg := lg st ++ [LHash; w_cur]; ret := ret st |})).
Proof.
  destruct st as [en b ch l r]. unfold call_fn, lrucache_remove_ptr. cbn.
  rewrite entry_at_unfold. unfold b_remove.
  destruct (gh (bg b) a) as [n|] eqn:Hn; cbn; [|reflexivity].
  rewrite (unhinge_split _ _ _ Hn).
  destruct (npay n) as [|k v|k v] eqn:Hp; cbn; try reflexivity.
  destruct ch; cbn; callr P2_lrucache_remove_metadata_call; rewrite Hp;
  (case_on (set_next (gh (bg b)) (nprev n) (nnext n)); case_on (set_prev h (nnext n) (nprev n)); case_on (sub64 (bcur b) (nsize n)));
  rewrite <- app_assoc; reflexivity.
Qed.

Theorem P2_lrucache_remove_lru_call st :
  callf lrucache_remove_lru [] st =
  (let b := cs st in
   lp <- b_lru (bg b) ;;
   match lp with
   | None => Some (VNone, {| env := env st; cs := b; charged := charged st; lg := lg st; ret := ret st |})
   | Some a =>
     e <- entry_at (gh (bg b)) a ;; g' <- b_remove (bg b) a ;; c <- sub64 (bcur b) (es e) ;;
     Some (VSome (VKV e), {| env := env st; cs := {| bg := g'; bcur := c; bmax := bmax b; btb := tb_charged (charged st) (btb b) |};
                             charged := true; lg := lg st ++ [LHash; w_cur]; ret := ret st |})
   end).
Proof.
  destruct st as [en b ch l r]. unfold call_fn, lrucache_remove_lru. cbn.
  destruct (b_lru (bg b)) as [[a|]|] eqn:Hl; cbn; try reflexivity.
  callr P2_lrucache_remove_ptr_call.
  case_on (entry_at (gh (bg b)) a). case_on (b_remove (bg b) a). case_on (sub64 (bcur b) (es e)).
Qed.

Theorem P2_lrucache_remove_mru_call st :
  callf lrucache_remove_mru [] st =
  (let b := cs st in
   lp <- b_mru (bg b) ;;
   match lp with
   | None => Some (VNone, {| env := env st; cs := b; charged := charged st; lg := lg st; ret := ret st |})
   | Some a =>
     e <- entry_at (gh (bg b)) a ;; g' <- b_remove (bg b) a ;; c <- sub64 (bcur b) (es e) ;;
     Some (VSome (VKV e), {| env := env st; cs := {| bg := g'; bcur := c; bmax := bmax b; btb := tb_charged (charged st) (btb b) |};
                             charged := true; lg := lg st ++ [LHash; w_cur]; ret := ret st |})
   end).
Proof.
  destruct st as [en b ch l r]. unfold call_fn, lrucache_remove_mru. cbn.
  destruct (b_mru (bg b)) as [[a|]|] eqn:Hl; cbn; try reflexivity.
  callr P2_lrucache_remove_ptr_call.
  case_on (entry_at (gh (bg b)) a). case_on (b_remove (bg b) a). case_on (sub64 (bcur b) (es e)).
Qed.

(* ---------- eject_to_target = b_eject ---------- *)
Definition evict_log (evd : list entry) : list logitem := flat_map (fun e => [LHash; w_cur; LDropKV evict_site e]) evd.
Definition tb_after (ch : bool) (t : tbl) (evd : list entry) : tbl := match evd with [] => t | _ => tb_charged ch t end.
Definition ch_after (ch : bool) (evd : list entry) : bool := match evd with [] => ch | _ => true end.
Lemma tb_after_true t evd : tb_after true t evd = t.
Proof. destruct evd; reflexivity. Qed.

(* the loop of eject_to_target, read off the generated program (no name of the source is mentioned here) *)
Definition eject_parts : expr * tm :=
  match fn_body lrucache_eject_to_target with SSeq (SWhile c body) SSkip => (c, body) | _ => (EUnknown "", SUnknown "") end.
Definition eject_cond : state -> option bool := wcond VS (fst eject_parts).
Definition eject_body : state -> option state := block_of (exec E VS oB (fn_name lrucache_eject_to_target) (snd eject_parts)).
Definition eject_env (tgt : N) : envt := combine (fn_params lrucache_eject_to_target) [VNum tgt].

Lemma b_eject_eq fuel g c tgt :
  b_eject fuel g c tgt =
  if c <=? tgt then Some (g, c, []) else
  match fuel with
  | O => None
  | S f => lp <- b_lru g ;;
           match lp with
           | None => None
           | Some p => e <- entry_at (gh g) p ;; g' <- b_remove g p ;; c' <- sub64 c (es e) ;;
                       x <- b_eject f g' c' tgt ;; let '(g'', c'', evd) := x in Some (g'', c'', e :: evd)
           end
  end.
Proof. destruct fuel; reflexivity. Qed.

Lemma b_eject_spin fuel g c tgt : (c <=? tgt) = false -> b_lru g = Some None -> b_eject fuel g c tgt = None.
Proof. intros Hc Hl. rewrite b_eject_eq, Hc. destruct fuel; [reflexivity|]. rewrite Hl. reflexivity. Qed.

Lemma eject_loop tgt : forall fuel b ch l,
  while_loop eject_cond eject_body fuel {| env := eject_env tgt; cs := b; charged := ch; lg := l; ret := None |} =
  (x <- b_eject fuel (bg b) (bcur b) tgt ;;
   let '(g', c', evd) := x in
   Some {| env := eject_env tgt; cs := {| bg := g'; bcur := c'; bmax := bmax b; btb := tb_after ch (btb b) evd |};
           charged := ch_after ch evd; lg := l ++ evict_log evd; ret := None |}).
Proof.
  induction fuel as [|f IH]; intros [g c m t] ch l; cbn; rewrite b_eject_eq; cbn [bg bcur bmax btb]; rewrite N.ltb_antisym;
    destruct (c <=? tgt) eqn:Hc; cbn; try (rewrite app_nil_r; reflexivity); try reflexivity.
  unfold eject_body at 1. unfold block_of at 1. cbn. callr P2_lrucache_remove_lru_call.
  destruct (b_lru g) as [[p|]|] eqn:Hl; cbn; try reflexivity.
  - case_on (entry_at (gh g) p). case_on (b_remove g p). case_on (sub64 c (es e)).
    unfold leave_block, add_log, with_env; cbn. rewrite IH. cbn. destruct (b_eject f g0 n tgt) as [[[g2 c2] evd]|]; cbn; [|reflexivity].
    unfold tb_after, ch_after, evict_log. cbn. rewrite <- !app_assoc. cbn.
    destruct evd; reflexivity.
  - unfold leave_block, add_log, with_env; cbn. rewrite app_nil_r. rewrite IH. cbn. rewrite (b_eject_spin f g c tgt Hc Hl). reflexivity.
Qed.

Theorem P2_lrucache_eject_to_target_call tgt st :
  callf lrucache_eject_to_target [VNum tgt] st =
  (let b := cs st in
   x <- b_eject (List.length (glist (bg b))) (bg b) (bcur b) tgt ;;
   let '(g', c', evd) := x in
   Some (VUnit, {| env := env st; cs := {| bg := g'; bcur := c'; bmax := bmax b; btb := tb_after (charged st) (btb b) evd |};
                   charged := ch_after (charged st) evd; lg := lg st ++ evict_log evd; ret := ret st |})).
Proof.
  destruct st as [en b ch l r]. unfold call_fn, lrucache_eject_to_target. cbn.
  change (while_loop _ _ ?n ?s) with (while_loop eject_cond eject_body n s).
  unfold enter; cbn. rewrite (eject_loop tgt). cbn.
  destruct (b_eject (List.length (glist (bg b))) (bg b) (bcur b) tgt) as [[[g2 c2] evd]|]; cbn; reflexivity.
Qed.

(* ---------- the table lookups ---------- *)
Theorem P2_lrucache_get_mut_from_table_call q st :
  callf lrucache_get_mut_from_table [VId q] st =
  Some (match b_find (bg (cs st)) q with Some (a, _) => VSome (VRef a) | None => VNone end,
        {| env := env st; cs := cs st; charged := charged st; lg := lg st ++ [LHash]; ret := ret st |}).
Proof.
  destruct st as [en b ch l r]. unfold call_fn, lrucache_get_mut_from_table. cbn. rewrite N.eqb_refl. reflexivity.
Qed.
Theorem P2_lrucache_get_from_table_call q st :
  callf lrucache_get_from_table [VId q] st =
  Some (match b_find (bg (cs st)) q with Some (a, _) => VSome (VRef a) | None => VNone end,
        {| env := env st; cs := cs st; charged := charged st; lg := lg st ++ [LHash]; ret := ret st |}).
Proof.
  destruct st as [en b ch l r]. unfold call_fn, lrucache_get_from_table. cbn. rewrite N.eqb_refl. reflexivity.
Qed.

(* ---------- reading results and logs as Layer A reads them ---------- *)
Definition out_unit (v : value) : option out := match v with VUnit => Some OUnit | _ => None end.
Definition out_bool (v : value) : option out := match v with VBool t => Some (OBool t) | _ => None end.
Definition out_kv (v : value) : option out :=
  match v with
  | VNone => Some (OKV None)
  | VSome (VKV e) => Some (OKV (Some (kv e)))                       (* an owned pair *)
  | VSome (VPair (VKeyR k) (VValR w)) => Some (OKV (Some (k, w)))   (* references into the bucket *)
  | _ => None
  end.
Definition out_val (v : value) : option out :=
  match v with
  | VNone => Some (OVal None)
  | VSome (VVal w) | VSome (VValR w) => Some (OVal (Some w))
  | _ => None
  end.

Lemma log_evicted_app l1 l2 : log_evicted (l1 ++ l2) = log_evicted l1 ++ log_evicted l2.
Proof. apply flat_map_app. Qed.
Lemma log_dropped_app l1 l2 : log_dropped (l1 ++ l2) = log_dropped l1 ++ log_dropped l2.
Proof. apply flat_map_app. Qed.
Lemma log_visits_app l1 l2 : log_visits (l1 ++ l2) = log_visits l1 ++ log_visits l2.
Proof. apply flat_map_app. Qed.
Lemma sumN_app a b : sumN (a ++ b) = sumN a + sumN b.
Proof. induction a as [|x a IH]; cbn [app sumN fold_right]; [reflexivity|]. fold (sumN (a ++ b)) (sumN a). rewrite IH. lia. Qed.
Lemma log_hashes_app l1 l2 : log_hashes (l1 ++ l2) = log_hashes l1 + log_hashes l2.
Proof. unfold log_hashes. now rewrite map_app, sumN_app. Qed.
Lemma log_rebuilt_app l1 l2 : log_rebuilt (l1 ++ l2) = log_rebuilt l1 || log_rebuilt l2.
Proof. apply existsb_app. Qed.
Definition evicted_of (i : logitem) : list entry := match i with LDropKV s e => if String.eqb s evict_site then [e] else [] | _ => [] end.
Definition dropped_of (i : logitem) : list N := match i with LDrop t => t | LDropKV _ e => toks e | _ => [] end.
Definition hashes_of (i : logitem) : N := match i with LHash => 1 | LRehash n => n | _ => 0 end.
Definition rebuilt_of (i : logitem) : bool := match i with LRehash _ => true | _ => false end.
Definition visits_of (i : logitem) : list (key * val) := match i with LVisit k v => [(k, v)] | _ => [] end.
Lemma log_evicted_cons i l : log_evicted (i :: l) = evicted_of i ++ log_evicted l.
Proof. reflexivity. Qed.
Lemma log_dropped_cons i l : log_dropped (i :: l) = dropped_of i ++ log_dropped l.
Proof. reflexivity. Qed.
Lemma log_visits_cons i l : log_visits (i :: l) = visits_of i ++ log_visits l.
Proof. reflexivity. Qed.
Lemma log_hashes_cons i l : log_hashes (i :: l) = hashes_of i + log_hashes l.
Proof. reflexivity. Qed.
Lemma log_rebuilt_cons i l : log_rebuilt (i :: l) = rebuilt_of i || log_rebuilt l.
Proof. reflexivity. Qed.
Lemma evict_log_cons e r : evict_log (e :: r) = [LHash; w_cur; LDropKV evict_site e] ++ evict_log r.
Proof. reflexivity. Qed.
Lemma evict_log_evicted evd : log_evicted (evict_log evd) = evd.
Proof. induction evd as [|e r IH]; [reflexivity|]. rewrite evict_log_cons, log_evicted_app, IH. reflexivity. Qed.
Lemma evict_log_dropped evd : log_dropped (evict_log evd) = all_toks evd.
Proof. induction evd as [|e r IH]; [reflexivity|]. rewrite evict_log_cons, log_dropped_app, IH. reflexivity. Qed.
Lemma evict_log_hashes evd : log_hashes (evict_log evd) = N.of_nat (List.length evd).
Proof.
  induction evd as [|e r IH]; [reflexivity|]. rewrite evict_log_cons, log_hashes_app, IH. cbn [List.length].
  change (log_hashes [LHash; w_cur; LDropKV evict_site e]) with 1. lia.
Qed.
Lemma evict_log_rebuilt evd : log_rebuilt (evict_log evd) = false.
Proof. induction evd as [|e r IH]; [reflexivity|]. rewrite evict_log_cons, log_rebuilt_app, IH. reflexivity. Qed.
Lemma evict_log_visits evd : log_visits (evict_log evd) = [].
Proof. induction evd as [|e r IH]; [reflexivity|]. rewrite evict_log_cons, log_visits_app, IH. reflexivity. Qed.

(* the oracle's tombstone total counts only if something is erased (OpLang charges it at the first erasure; StepB.v
   adds it to the table even when the operation erased nothing) *)
Definition tomb_if (c : bool) (o : oracleB) : oracleB :=
  if c then o else {| ob := {| o_tomb := 0; o_reuse := o_reuse (ob o); o_alloc := o_alloc (ob o) |}; ob_addr := ob_addr o; ob_moves := ob_moves o |}.

Lemma b_eject_nil : forall fuel g c tgt g' c' evd, b_eject fuel g c tgt = Some (g', c', evd) ->
  match evd with [] => (c <=? tgt) = true | _ => (c <=? tgt) = false end.
Proof.
  intros fuel g c tgt g' c' evd. rewrite b_eject_eq. destruct (c <=? tgt); [intros [= <- <- <-]; reflexivity|].
  destruct fuel; [discriminate|]. destruct (b_lru g) as [[p|]|]; try discriminate. cbn [bind].
  destruct (entry_at (gh g) p); [|discriminate]. cbn [bind]. destruct (b_remove g p); [|discriminate]. cbn [bind].
  destruct (sub64 c (es e)); [|discriminate]. cbn [bind]. destruct (b_eject fuel g0 n tgt) as [[[g2 c2] ev2]|]; [|discriminate].
  cbn [bind]. intros [= <- <- <-]. reflexivity.
Qed.

Notation run := (run_op E VS oB).
Ltac evdone := rewrite ?app_nil_r; f_equal; try reflexivity; lia.
Ltac evlog := unfold ev_of_log; rewrite ?app_nil_r;
  repeat rewrite ?log_evicted_app, ?log_dropped_app, ?log_hashes_app, ?log_rebuilt_app, ?log_visits_app,
                 ?log_evicted_cons, ?log_dropped_cons, ?log_hashes_cons, ?log_rebuilt_cons, ?log_visits_cons,
                 ?evict_log_evicted, ?evict_log_dropped, ?evict_log_hashes, ?evict_log_rebuilt, ?evict_log_visits;
  cbn.

(* ---------- remove_lru / remove_mru ---------- *)
Theorem P2_lrucache_remove_lru : forall b, run lrucache_remove_lru [] out_kv b = stepB E VS b RemoveLru oB.
Proof.
  intros b. unfold run_op, run_fn, init. rewrite P2_lrucache_remove_lru_call. cbn.
  destruct (b_lru (bg b)) as [[a|]|]; cbn; try reflexivity.
  unfold bB_remove_at. case_on (entry_at (gh (bg b)) a). case_on (b_remove (bg b) a). case_on (sub64 (bcur b) (es e)).
Qed.
Theorem P2_lrucache_remove_mru : forall b, run lrucache_remove_mru [] out_kv b = stepB E VS b RemoveMru oB.
Proof.
  intros b. unfold run_op, run_fn, init. rewrite P2_lrucache_remove_mru_call. cbn.
  destruct (b_mru (bg b)) as [[a|]|]; cbn; try reflexivity.
  unfold bB_remove_at. case_on (entry_at (gh (bg b)) a). case_on (b_remove (bg b) a). case_on (sub64 (bcur b) (es e)).
Qed.

(* ---------- set_max_size ----------
   Swapping its two statements gives the same final cache (eject_to_target does not read max_size); what differs is
   the ORDER of the bookkeeping: the limit would be stored before the evictions run (user code - hashing, Drop - runs
   during them).  The log records the assignments of the counters, and the first theorem pins it. *)
Theorem P2_lrucache_set_max_size_call n st :
  callf lrucache_set_max_size [VNum n] st =
  (let b := cs st in
   x <- b_eject (List.length (glist (bg b))) (bg b) (bcur b) n ;;
   let '(g', c', evd) := x in
   Some (VUnit, {| env := env st; cs := {| bg := g'; bcur := c'; bmax := n; btb := tb_after (charged st) (btb b) evd |};
                   charged := ch_after (charged st) evd; lg := lg st ++ evict_log evd ++ [w_max]; ret := ret st |})).
Proof.
  destruct st as [en b ch l r]. unfold call_fn, lrucache_set_max_size. cbn. callr P2_lrucache_eject_to_target_call.
  destruct (b_eject (List.length (glist (bg b))) (bg b) (bcur b) n) as [[[g1 c1] evd]|]; cbn; [|reflexivity].
  norm. cbn. rewrite app_nil_r, <- app_assoc. reflexivity.
Qed.
Theorem P2_lrucache_set_max_size : forall b n,
  run lrucache_set_max_size [VNum n] out_unit b = stepB E VS b (SetMaxSize n) (tomb_if (n <? bcur b) oB).
Proof.
  intros b n. unfold run_op, run_fn, init. rewrite P2_lrucache_set_max_size_call. cbn.
  destruct (b_eject (List.length (glist (bg b))) (bg b) (bcur b) n) as [[[g1 c1] evd]|] eqn:He; cbn; [|reflexivity].
  pose proof (b_eject_nil _ _ _ _ _ _ _ He) as Hn. rewrite N.ltb_antisym.
  evlog.
  destruct evd; rewrite Hn; cbn; rewrite ?t_erase_0, ?app_nil_r; repeat rewrite N.add_0_r; reflexivity.
Qed.

(* ---------- touch / get_entry / get ---------- *)
Theorem P2_lrucache_touch : forall b q, run lrucache_touch [VId q] out_unit b = stepB E VS b (Touch q) oB.
Proof.
  intros b q. unfold run_op, run_fn, init, call_fn, lrucache_touch. cbn. callr P2_lrucache_get_mut_from_table_call.
  unfold bB_touch. destruct (b_find (bg b) q) as [[a e]|]; cbn; [|reflexivity].
  case_on (b_touch (bg b) a).
Qed.

Theorem P2_lrucache_get_entry_call q st :
  callf lrucache_get_entry [VId q] st =
  (let b := cs st in
   match b_find (bg b) q with
   | Some (a, e) => g' <- b_touch (bg b) a ;;
        Some (VSome (VPair (VKeyR (ek e)) (VValR (ev e))),
              {| env := env st; cs := {| bg := g'; bcur := bcur b; bmax := bmax b; btb := btb b |}; charged := charged st; lg := lg st ++ [LHash]; ret := ret st |})
   | None => Some (VNone, {| env := env st; cs := b; charged := charged st; lg := lg st ++ [LHash]; ret := ret st |})
   end).
Proof.
  destruct st as [en b ch l r]. unfold call_fn, lrucache_get_entry. cbn. callr P2_lrucache_get_mut_from_table_call.
  destruct (b_find (bg b) q) as [[a e]|] eqn:Hf; cbn; [|reflexivity].
  destruct (b_touch (bg b) a) as [g'|] eqn:Ht; cbn; [|reflexivity].
  rewrite (touch_entry_at _ _ _ a Ht), (b_find_sound _ _ _ _ Hf). norm. rewrite ?app_nil_r. reflexivity.
Qed.
Theorem P2_lrucache_get_entry : forall b q, run lrucache_get_entry [VId q] out_kv b = stepB E VS b (GetEntry q) oB.
Proof.
  intros b q. unfold run_op, run_fn, init. rewrite P2_lrucache_get_entry_call. cbn. unfold bB_touch.
  destruct (b_find (bg b) q) as [[a e]|]; cbn; [|reflexivity]. case_on (b_touch (bg b) a).
Qed.
Theorem P2_lrucache_get : forall b q, run lrucache_get [VId q] out_val b = stepB E VS b (Get q) oB.
Proof.
  intros b q. unfold run_op, run_fn, init, call_fn, lrucache_get. cbn. callr P2_lrucache_get_entry_call. unfold bB_touch.
  destruct (b_find (bg b) q) as [[a e]|]; cbn; [|reflexivity]. case_on (b_touch (bg b) a).
Qed.

(* ---------- peek_entry / peek / contains ---------- *)
Theorem P2_lrucache_peek_entry : forall b q, run lrucache_peek_entry [VId q] out_kv b = stepB E VS b (PeekEntry q) oB.
Proof.
  intros b q. unfold run_op, run_fn, init, call_fn, lrucache_peek_entry. cbn. callr P2_lrucache_get_from_table_call.
  destruct (b_find (bg b) q) as [[a e]|] eqn:Hf; cbn; [|reflexivity]. rewrite (b_find_sound _ _ _ _ Hf). reflexivity.
Qed.
Theorem P2_lrucache_peek : forall b q, run lrucache_peek [VId q] out_val b = stepB E VS b (Peek q) oB.
Proof.
  intros b q. unfold run_op, run_fn, init, call_fn, lrucache_peek. cbn. callr P2_lrucache_get_from_table_call.
  destruct (b_find (bg b) q) as [[a e]|] eqn:Hf; cbn; [|reflexivity]. rewrite (b_find_sound _ _ _ _ Hf). reflexivity.
Qed.
Theorem P2_lrucache_contains : forall b q, run lrucache_contains [VId q] out_bool b = stepB E VS b (Contains q) oB.
Proof.
  intros b q. unfold run_op, run_fn, init, call_fn, lrucache_contains. cbn. rewrite N.eqb_refl. cbn.
  destruct (b_find (bg b) q) as [[a e]|]; reflexivity.
Qed.

(* ---------- remove_from_table / remove_entry / remove ---------- *)
Theorem P2_lrucache_remove_from_table_call q st :
  callf lrucache_remove_from_table [VId q] st =
  (let b := cs st in
   match b_find (bg b) q with
   | Some (a, _) => n <- gh (bg b) a ;;
        Some (VSome (VEntry (Some a) n),
              {| env := env st;
                 cs := {| bg := {| gh := gh (bg b); gseal := gseal (bg b); glist := remove_addr a (glist (bg b)) |};
                          bcur := bcur b; bmax := bmax b; btb := tb_charged (charged st) (btb b) |};
                 charged := true; lg := lg st ++ [LHash]; ret := ret st |})
   | None => Some (VNone, {| env := env st; cs := b; charged := charged st; lg := lg st ++ [LHash]; ret := ret st |})
   end).
Proof.
  destruct st as [en b ch l r]. unfold call_fn, lrucache_remove_from_table. cbn. rewrite N.eqb_refl.
  destruct (b_find (bg b) q) as [[a e]|]; cbn; [|reflexivity].
  destruct (gh (bg b) a); cbn; [|reflexivity]. destruct ch; reflexivity.
Qed.

Theorem P2_lrucache_remove_entry_call q st :
  callf lrucache_remove_entry [VId q] st =
  (let b := cs st in
   match b_find (bg b) q with
   | Some (a, e) => g' <- b_remove (bg b) a ;; c <- sub64 (bcur b) (es e) ;;
        Some (VSome (VKV e),
              {| env := env st; cs := {| bg := g'; bcur := c; bmax := bmax b; btb := tb_charged (charged st) (btb b) |};
                 charged := true; lg := lg st ++ [LHash; w_cur]; ret := ret st |})
   | None => Some (VNone, {| env := env st; cs := b; charged := charged st; lg := lg st ++ [LHash]; ret := ret st |})
   end).
Proof.
  destruct st as [en b ch l r]. unfold call_fn, lrucache_remove_entry. cbn. callr P2_lrucache_remove_from_table_call.
  destruct (b_find (bg b) q) as [[a e]|] eqn:Hf; cbn; [|reflexivity].
  destruct (entry_at_node _ _ _ (b_find_sound _ _ _ _ Hf)) as (n & Hn & Hp & Hs). rewrite Hn. cbn.
  callr P2_lrucache_remove_metadata_call. unfold b_remove. rewrite (unhinge_split _ _ _ Hn), Hp, Hs.
  case_on (set_next (gh (bg b)) (nprev n) (nnext n)). case_on (set_prev h (nnext n) (nprev n)).
  case_on (sub64 (bcur b) (es e)). rewrite <- app_assoc. destruct e; reflexivity.
Qed.
Theorem P2_lrucache_remove_entry : forall b q, run lrucache_remove_entry [VId q] out_kv b = stepB E VS b (RemoveEntry q) oB.
Proof.
  intros b q. unfold run_op, run_fn, init. rewrite P2_lrucache_remove_entry_call. cbn. unfold bB_remove_at.
  destruct (b_find (bg b) q) as [[a e]|]; cbn; [|reflexivity]. case_on (b_remove (bg b) a). case_on (sub64 (bcur b) (es e)).
Qed.
Theorem P2_lrucache_remove : forall b q, run lrucache_remove [VId q] out_val b = stepB E VS b (Remove q) oB.
Proof.
  intros b q. unfold run_op, run_fn, init, call_fn, lrucache_remove. cbn. callr P2_lrucache_remove_entry_call. unfold bB_remove_at.
  destruct (b_find (bg b) q) as [[a e]|]; cbn; [|reflexivity]. case_on (b_remove (bg b) a). case_on (sub64 (bcur b) (es e)).
Qed.

(* ---------- get_lru / peek_lru / peek_mru ---------- *)
Theorem P2_lrucache_get_lru : forall b, run lrucache_get_lru [] out_kv b = stepB E VS b GetLru oB.
Proof.
  intros b. unfold run_op, run_fn, init, call_fn, lrucache_get_lru. cbn.
  destruct (b_lru (bg b)) as [[a|]|]; cbn; try reflexivity.
  destruct (b_touch (bg b) a) as [g'|] eqn:Ht; cbn.
  - rewrite (touch_entry_at _ _ _ a Ht). case_on (entry_at (gh (bg b)) a).
  - destruct (entry_at (gh (bg b)) a); reflexivity.
Qed.
Theorem P2_lrucache_peek_lru : forall b, run lrucache_peek_lru [] out_kv b = stepB E VS b PeekLru oB.
Proof.
  intros b. unfold run_op, run_fn, init, call_fn, lrucache_peek_lru. cbn.
  destruct (b_lru (bg b)) as [[a|]|]; cbn; try reflexivity. case_on (entry_at (gh (bg b)) a).
Qed.
Theorem P2_lrucache_peek_mru : forall b, run lrucache_peek_mru [] out_kv b = stepB E VS b PeekMru oB.
Proof.
  intros b. unfold run_op, run_fn, init, call_fn, lrucache_peek_mru. cbn.
  destruct (b_mru (bg b)) as [[a|]|]; cbn; try reflexivity. case_on (entry_at (gh (bg b)) a).
Qed.

(* ---------- try_reallocate / reallocate ---------- *)
Theorem P2_lrucache_try_reallocate_call n st :
  callf lrucache_try_reallocate [VNum n] st =
  (let b := cs st in
   match t_alloc E n (o_alloc (ob oB)) with
   | AOk t' => g' <- b_moves_chk (bg b) (ob_moves oB) ;;
               Some (VOk VUnit, {| env := env st; cs := {| bg := g'; bcur := bcur b; bmax := bmax b; btb := t' |}; charged := charged st;
                                   lg := lg st ++ [LRehash (N.of_nat (List.length (glist (bg b))))]; ret := ret st |})
   | AOverflow => Some (VErr (VStruct "TryReserveError::CapacityOverflow" []), {| env := env st; cs := b; charged := charged st; lg := lg st; ret := ret st |})
   | ARefused => Some (VErr (VStruct "TryReserveError::AllocError" []), {| env := env st; cs := b; charged := charged st; lg := lg st; ret := ret st |})
   end).
Proof.
  destruct st as [en b ch l r]. unfold call_fn, lrucache_try_reallocate. cbn.
  destruct (t_alloc E n (o_alloc (ob oB))); cbn; try reflexivity.
  destruct (b_moves_chk (bg b) (ob_moves oB)); cbn; [|reflexivity]. norm. rewrite app_nil_r. reflexivity.
Qed.
Theorem P2_lrucache_reallocate_call n st :
  callf lrucache_reallocate [VNum n] st =
  (let b := cs st in
   match t_alloc E n (o_alloc (ob oB)) with
   | AOk t' => g' <- b_moves_chk (bg b) (ob_moves oB) ;;
               Some (VUnit, {| env := env st; cs := {| bg := g'; bcur := bcur b; bmax := bmax b; btb := t' |}; charged := charged st;
                               lg := lg st ++ [LRehash (N.of_nat (List.length (glist (bg b))))]; ret := ret st |})
   | _ => None
   end).
Proof.
  destruct st as [en b ch l r]. unfold call_fn, lrucache_reallocate. cbn. callr P2_lrucache_try_reallocate_call.
  destruct (t_alloc E n (o_alloc (ob oB))); cbn; try reflexivity.
  destruct (b_moves_chk (bg b) (ob_moves oB)); cbn; reflexivity.
Qed.

(* ---------- prepare_insert ---------- *)
Definition too_large (k : key) (v : val) (sz mx : N) : value :=
  VStruct "EntryTooLarge" [("key", VKey k); ("value", VVal v); ("entry_size", VNum sz); ("max_size", VNum mx)].
Theorem P2_lrucache_prepare_insert_call k v st :
  callf lrucache_prepare_insert [VKey k; VVal v] st =
  (sz <- esz E k v ;;
   Some (if bmax (cs st) <? sz then VErr (too_large k v sz (bmax (cs st))) else VOk (VUnh {| ek := k; ev := v; es := sz |}),
         {| env := env st; cs := cs st; charged := charged st; lg := lg st; ret := ret st |})).
Proof.
  destruct st as [en b ch l r]. unfold call_fn, lrucache_prepare_insert. cbn.
  destruct (esz E k v) as [sz|]; cbn; [|reflexivity]. destruct (bmax b <? sz); reflexivity.
Qed.

(* ================================================================================================================
   The larger functions are executed STEP BY STEP: from here on `exec` does not unfold under cbn; one step of it is
   one of the equations x_<constructor> below (each is the defining clause of `exec`, by reflexivity), applied by
   rewriting at the evaluation position only (the occurrences of `exec` in continuations mention bound variables and
   cannot be rewritten).  This keeps every conversion the kernel has to check small. *)
Notation ex := (exec E VS oB).
Lemma x_RExp fn e st : ex fn (RExp e) st = (v <- eval VS (env st) (cs st) e ;; Some (v, st)).
Proof. reflexivity. Qed.
Lemma x_RPrim fn p args st : ex fn (RPrim p args) st = (vs <- eval_list VS (env st) (cs st) args ;; do_prim E oB p vs st).
Proof. reflexivity. Qed.
Lemma x_RMap fn r1 p body tail st : ex fn (RMap r1 p body tail) st = (bindr (ex fn r1 st) (fun v st1 =>
        match v with
        | VNone => Some (VNone, st1)
        | VSome w =>
            in_block st1
              (st2 <- bind_pat fn p w st1 ;;
               bindr (ex fn body st2) (fun _ st3 =>
               bindr (ex fn tail st3) (fun t st4 => Some (VSome t, st4))))
        | _ => None
        end)).
Proof. reflexivity. Qed.
Lemma x_RUnwrap fn r1 st : ex fn (RUnwrap r1) st = (bindr (ex fn r1 st) (fun v st1 =>
        match v with
        | VSome w | VOk w => Some (w, st1)
        | _ => None
        end)).
Proof. reflexivity. Qed.
Lemma x_RUnwrapUnchecked fn r1 st : ex fn (RUnwrapUnchecked r1) st = (bindr (ex fn r1 st) (fun v st1 =>
        match v with VSome w | VOk w => Some (w, st1) | _ => None end)).
Proof. reflexivity. Qed.
Lemma x_RTry fn r1 st : ex fn (RTry r1) st = (bindr (ex fn r1 st) (fun v st1 =>
        match v with
        | VOk w => Some (w, st1)
        | VErr e => Some (VUnit, with_ret st1 (Some (VErr e)))
        | _ => None
        end)).
Proof. reflexivity. Qed.
Lemma x_RProj fn r1 i st : ex fn (RProj r1 i) st = (bindr (ex fn r1 st) (fun v st1 =>
        match v, i with
        | VKV e, O => Some (VKey (ek e), add_log st1 [LDrop [vtok (ev e)]])
        | VKV e, S O => Some (VVal (ev e), add_log st1 [LDrop [ktok (ek e)]])
        | VPair a b, O => l <- drop_log fn b ;; Some (a, add_log st1 l)
        | VPair a b, S O => l <- drop_log fn a ;; Some (b, add_log st1 l)
        | _, _ => None
        end)).
Proof. reflexivity. Qed.
Lemma x_RIsSome fn r1 st : ex fn (RIsSome r1) st = (bindr (ex fn r1 st) (fun v st1 =>
        match v with VSome _ => Some (VBool true, st1) | VNone => Some (VBool false, st1) | _ => None end)).
Proof. reflexivity. Qed.
Lemma x_ROkOr fn r1 e st : ex fn (ROkOr r1 e) st = (bindr (ex fn r1 st) (fun v st1 =>
        match v with
        | VSome w => Some (VOk w, st1)
        | VNone => w <- eval VS (env st1) (cs st1) e ;; Some (VErr w, st1)
        | _ => None
        end)).
Proof. reflexivity. Qed.
Lemma x_SSkip fn  st : ex fn (SSkip ) st = (Some (VUnit, st)).
Proof. reflexivity. Qed.
Lemma x_SSeq fn a b st : ex fn (SSeq a b) st = (bindr (ex fn a st) (fun _ st1 => ex fn b st1)).
Proof. reflexivity. Qed.
Lemma x_SLet fn p r st : ex fn (SLet p r) st = (bindr (ex fn r st) (fun v st1 => unit_of (bind_pat fn p v st1))).
Proof. reflexivity. Qed.
Lemma x_SDecl fn x st : ex fn (SDecl x) st = (Some (VUnit, with_env st ((x, VUninit) :: env st))).
Proof. reflexivity. Qed.
Lemma x_SAssign fn l r st : ex fn (SAssign l r) st = (bindr (ex fn r st) (fun v st1 => unit_of (assign VS l v st1))).
Proof. reflexivity. Qed.
Lemma x_SExpr fn r st : ex fn (SExpr r) st = (bindr (ex fn r st) (fun v st1 => l <- drop_log fn v ;; Some (VUnit, add_log st1 l))).
Proof. reflexivity. Qed.
Lemma x_SIf fn c a b st : ex fn (SIf c a b) st = (bindr (ex fn c st) (fun v st1 =>
        match v with
        | VBool true => in_block st1 (ex fn a st1)
        | VBool false => in_block st1 (ex fn b st1)
        | _ => None
        end)).
Proof. reflexivity. Qed.
Lemma x_SIfSome fn p r a b st : ex fn (SIfSome p r a b) st = (bindr (ex fn r st) (fun v st1 =>
        match v with
        | VSome w => in_block st1 (st2 <- bind_pat fn p w st1 ;; ex fn a st2)
        | VNone => in_block st1 (ex fn b st1)
        | _ => None
        end)).
Proof. reflexivity. Qed.
Lemma x_SMatchRes fn r p1 a p2 b st : ex fn (SMatchRes r p1 a p2 b) st = (bindr (ex fn r st) (fun v st1 =>
        match v with
        | VOk w => in_block st1 (st2 <- bind_pat fn p1 w st1 ;; ex fn a st2)
        | VErr w => in_block st1 (st2 <- bind_pat fn p2 w st1 ;; ex fn b st2)
        | _ => None
        end)).
Proof. reflexivity. Qed.
Lemma x_SWhile fn c body st : ex fn (SWhile c body) st = (unit_of (while_loop (wcond VS c) (block_of (ex fn body)) (List.length (glist (bg (cs st)))) st)).
Proof. reflexivity. Qed.
Lemma x_SLoop fn body st : ex fn (SLoop body) st = (unit_of (loop_n (block_of (ex fn body)) loop_fuel st)).
Proof. reflexivity. Qed.
Lemma x_SRet fn r st : ex fn (SRet r) st = (bindr (ex fn r st) (fun v st1 => Some (VUnit, with_ret st1 (Some v)))).
Proof. reflexivity. Qed.
Lemma x_SUnknown fn t0 st : ex fn (SUnknown t0) st = (None).
Proof. reflexivity. Qed.

#[local] Arguments exec : simpl never.
Ltac xstep :=
  match goal with
  | |- context [exec _ _ _ ?fn ?s ?st] =>
    lazymatch s with
    | SSeq ?a ?b => rewrite (x_SSeq fn a b st)
    | SLet ?p ?r => rewrite (x_SLet fn p r st)
    | SDecl ?x => rewrite (x_SDecl fn x st)
    | SAssign ?l ?r => rewrite (x_SAssign fn l r st)
    | SExpr ?r => rewrite (x_SExpr fn r st)
    | SIf ?c ?a ?b => rewrite (x_SIf fn c a b st)
    | SIfSome ?p ?r ?a ?b => rewrite (x_SIfSome fn p r a b st)
    | SMatchRes ?r ?p1 ?a ?p2 ?b => rewrite (x_SMatchRes fn r p1 a p2 b st)
    | SWhile ?c ?body => rewrite (x_SWhile fn c body st)
    | SLoop ?body => rewrite (x_SLoop fn body st)
    | SRet ?r => rewrite (x_SRet fn r st)
    | SSkip => rewrite (x_SSkip fn st)
    | SUnknown ?t => rewrite (x_SUnknown fn t st)
    | RExp ?e => rewrite (x_RExp fn e st)
    | RPrim ?p ?args => rewrite (x_RPrim fn p args st)
    | RMap ?r ?p ?body ?tail => rewrite (x_RMap fn r p body tail st)
    | RUnwrap ?r => rewrite (x_RUnwrap fn r st)
    | RUnwrapUnchecked ?r => rewrite (x_RUnwrapUnchecked fn r st)
    | RTry ?r => rewrite (x_RTry fn r st)
    | RProj ?r ?i => rewrite (x_RProj fn r i st)
    | RIsSome ?r => rewrite (x_RIsSome fn r st)
    | ROkOr ?r ?e => rewrite (x_ROkOr fn r e st)
    end
  end.
(* the state at the evaluation position as a record literal *)
Ltac xnorm :=
  repeat match goal with
  | |- context [exec _ _ _ _ _ ?ST] =>
      lazymatch ST with
      | Build_state _ _ _ _ _ => fail
      | _ => let ST' := eval cbn in (Build_state (env ST) (cs ST) (charged ST) (lg ST) (ret ST)) in change ST with ST'
      end
  end.
Ltac xrun := repeat first [ progress xnorm | xstep | progress cbn ].
Ltac xstart f := unfold call_fn, f; cbn [fn_name fn_params fn_body List.length Nat.eqb seq fold_right]; unfold enter; cbn [combine cs charged lg].
Ltac xcall lem := rewrite exec_call; cbn; rewrite lem; cbn.

(* ---------- insert_unchecked = b_insert_unchecked, then current_size += size ---------- *)
Lemma t_insert_eq t items o :
  t_insert E t items o =
  if andb (o_reuse o) (0 <? tombs t) then Some ({| nb := nb t; tombs := tombs t - 1 |}, false)
  else if 0 <? growth_left t items then Some (t, false)
  else c2 <- mul64 (capacity t) 2 ;;
       match t_alloc E (N.max c2 1) true with
       | AOk t' => if 0 <? growth_left t' items then Some (t', true) else None
       | _ => None
       end.
Proof. reflexivity. Qed.
Lemma b_insert_new_eq g a sz p :
  b_insert_new g a sz p =
  (x <- nextof (gh g) (gseal g) ;;
   h' <- set_head (upd (gh g) a {| nprev := gseal g; nnext := x; nsize := sz; npay := p |}) (gseal g) a ;;
   Some {| gh := h'; gseal := gseal g; glist := a :: glist g |}).
Proof. reflexivity. Qed.

Lemma insert_unchecked_no_seal g t k v sz : nextof (gh g) (gseal g) = None -> b_insert_unchecked E g t k v sz oB = None.
Proof.
  intros Hs. unfold b_insert_unchecked. destruct (t_insert E t (N.of_nat (List.length (glist g))) (ob oB)) as [[t2 rebuilt]|]; [|reflexivity].
  cbn [bind]. destruct rebuilt.
  - destruct (b_moves_chk g (ob_moves oB)) as [g1|] eqn:Hm; [|reflexivity]. cbn [bind].
    destruct (moves_chk_inv _ _ _ Hm) as (H1 & _ & H3).
    destruct (mem_addr (ob_addr oB) (gseal g1 :: glist g1)); [reflexivity|].
    rewrite b_insert_new_eq. unfold nextof in *. rewrite H1, H3; [reflexivity|]. destruct (gh g (gseal g)); [discriminate|reflexivity].
  - cbn [bind]. destruct (mem_addr (ob_addr oB) (gseal g :: glist g)); [reflexivity|]. rewrite b_insert_new_eq, Hs. reflexivity.
Qed.

Theorem P2_lrucache_insert_unchecked_call u st : o_alloc (ob oB) = true ->
  callf lrucache_insert_unchecked [VUnh u; VHash (kid (ek u))] st =
  (let b := cs st in
   y <- b_insert_unchecked E (bg b) (btb b) (ek u) (ev u) (es u) oB ;;
   let '(g2, t2, rebuilt) := y in
   c2 <- add64 (bcur b) (es u) ;;
   Some (VUnit, {| env := env st; cs := {| bg := g2; bcur := c2; bmax := bmax b; btb := t2 |}; charged := charged st;
                   lg := lg st ++ (if rebuilt : bool then [LRehash (N.of_nat (List.length (glist (bg b))))] else []) ++ [w_cur]; ret := ret st |})).
Proof.
  intros Halloc. destruct st as [en b ch l r]. xstart lrucache_insert_unchecked. xrun.
  destruct (nextof (gh (bg b)) (gseal (bg b))) as [x0|] eqn:Hx0; [|now rewrite insert_unchecked_no_seal]. xrun.
  unfold loop_fuel, loop_n, block_of. xrun. rewrite N.eqb_refl. xrun. unfold try_insert_no_grow at 1. cbn.
  unfold b_insert_unchecked. rewrite t_insert_eq.
  destruct (o_reuse (ob oB) && (0 <? tombs (btb b))) eqn:Hr.
  { cbn. destruct (mem_addr (ob_addr oB) (gseal (bg b) :: glist (bg b))); xrun; [reflexivity|].
    rewrite b_insert_new_eq, Hx0. cbn.
    destruct (add64 (bcur b) (es u)) as [c2|]; xrun.
    - destruct (set_head _ (gseal (bg b)) (ob_addr oB)) as [h'|]; xrun; [|reflexivity]. norm. cbn. rewrite ?app_nil_r, <- ?app_assoc. cbn [app]. reflexivity.
    - destruct (set_head _ (gseal (bg b)) (ob_addr oB)) as [h'|]; reflexivity. }
  destruct (0 <? growth_left (btb b) (N.of_nat (List.length (glist (bg b))))) eqn:Hg.
  { cbn. destruct (mem_addr (ob_addr oB) (gseal (bg b) :: glist (bg b))); xrun; [reflexivity|].
    rewrite b_insert_new_eq, Hx0. cbn.
    destruct (add64 (bcur b) (es u)) as [c2|]; xrun.
    - destruct (set_head _ (gseal (bg b)) (ob_addr oB)) as [h'|]; xrun; [|reflexivity]. norm. cbn. rewrite ?app_nil_r, <- ?app_assoc. cbn [app]. reflexivity.
    - destruct (set_head _ (gseal (bg b)) (ob_addr oB)) as [h'|]; reflexivity. }
  xrun. rewrite exec_call. cbn.
  destruct (mul64 (capacity (btb b)) 2) as [cc|] eqn:Hmul; xrun; [|reflexivity].
  rewrite P2_lrucache_reallocate_call. cbn. rewrite Halloc.
  destruct (t_alloc E (N.max cc 1) true) as [t'| |] eqn:Ht; xrun; try reflexivity.
  destruct (b_moves_chk (bg b) (ob_moves oB)) as [g1|] eqn:Hm; xrun; [|destruct (0 <? growth_left t' _); reflexivity].
  destruct (moves_chk_inv _ _ _ Hm) as (H1 & H2 & _).
  destruct (nextof (gh g1) (gseal g1)) as [x1|] eqn:Hx1; xrun.
  2:{ destruct (0 <? growth_left t' _); cbn; [|reflexivity]. destruct (mem_addr (ob_addr oB) (gseal g1 :: glist g1)); [reflexivity|].
      rewrite b_insert_new_eq, Hx1. reflexivity. }
  rewrite N.eqb_refl. xrun. unfold try_insert_no_grow at 1. cbn.
  rewrite (t_alloc_tombs _ _ _ _ Ht), N.ltb_irrefl, andb_false_r, H2.
  destruct (0 <? growth_left t' (N.of_nat (List.length (glist (bg b))))) eqn:Hg2.
  { cbn. destruct (mem_addr (ob_addr oB) (gseal g1 :: glist g1)); xrun; [reflexivity|].
    rewrite b_insert_new_eq, Hx1. cbn. rewrite !H1.
    destruct (add64 (bcur b) (es u)) as [c2|]; xrun.
    - destruct (set_head _ (gseal (bg b)) (ob_addr oB)) as [h'|]; xrun; [|reflexivity]. norm. cbn. rewrite ?app_nil_r, <- ?app_assoc. cbn [app]. reflexivity.
    - destruct (set_head _ (gseal (bg b)) (ob_addr oB)) as [h'|]; reflexivity. }
  (* a second failure: the model gives up (None); the program reallocates once more and runs out of rounds *)
  xrun. rewrite exec_call. cbn.
  destruct (mul64 (capacity t') 2) as [cc2|]; xrun; [|reflexivity].
  rewrite P2_lrucache_reallocate_call. cbn.
  destruct (t_alloc E (N.max cc2 1) (o_alloc (ob oB))) as [t''| |]; xrun; try reflexivity.
  destruct (b_moves_chk g1 (ob_moves oB)) as [g3|]; xrun; [|reflexivity].
  destruct (nextof (gh g3) (gseal g3)); xrun; reflexivity.
Qed.

(* ---------- insert ---------- *)
Definition out_too_large (name : string) (v : value) (mk : key -> val -> N -> N -> out) : option out :=
  match v with
  | VStruct n fs =>
      if String.eqb n name then
        match field "key" fs, field "value" fs, field "entry_size" fs, field "max_size" fs with
        | Some (VKey k), Some (VVal w), Some (VNum sz), Some (VNum mx) => Some (mk k w sz mx)
        | _, _, _, _ => None
        end
      else None
  | _ => None
  end.
Definition out_insert (v : value) : option out :=
  match v with
  | VOk VNone => Some (OInsOk None)
  | VOk (VSome (VVal w)) => Some (OInsOk (Some w))
  | VErr x => out_too_large "EntryTooLarge" x OInsTooLarge       (* InsertError::from(EntryTooLarge { .. }) keeps the fields *)
  | _ => None
  end.
(* does insert erase anything: a duplicate key, or an eviction *)
Definition ins_erases (b : bstate) (k : key) (v : val) : bool :=
  match esz E k v with
  | Some sz => match b_find (bg b) (kid k) with Some _ => true | None => (bmax b - sz) <? bcur b end
  | None => true
  end.
Lemma b_insert_unchecked_tomb_if c g t k v sz : b_insert_unchecked E g t k v sz (tomb_if c oB) = b_insert_unchecked E g t k v sz oB.
Proof. destruct c; reflexivity. Qed.

Theorem P2_lrucache_insert : forall b k v, o_alloc (ob oB) = true ->
  run lrucache_insert [VKey k; VVal v] out_insert b = stepB E VS b (Insert k v) (tomb_if (ins_erases b k v) oB).
Proof.
  intros b k v Halloc. unfold run_op, run_fn, init. xstart lrucache_insert. xrun.
  xcall P2_lrucache_prepare_insert_call. unfold stepB, bB_insert, ins_erases.
  destruct (esz E k v) as [sz|] eqn:Hsz; xrun; [|reflexivity].
  destruct (bmax b <? sz) eqn:Hlt; xrun; [reflexivity|].
  rewrite N.eqb_refl.
  destruct (b_find (bg b) (kid k)) as [[a e]|] eqn:Hf.
  - (* a duplicate: taken out, unhinged, its key dropped *)
    destruct (entry_at_node _ _ _ (b_find_sound _ _ _ _ Hf)) as (n & Hn & Hp & Hs). rewrite Hn. xrun.
    xcall P2_lrucache_remove_metadata_call. unfold b_remove. rewrite (unhinge_split _ _ _ Hn), Hp, Hs.
    destruct (set_next (gh (bg b)) (nprev n) (nnext n)) as [h1|]; xrun; [|reflexivity].
    destruct (set_prev h1 (nnext n) (nprev n)) as [h2|]; xrun; [|reflexivity].
    destruct (sub64 (bcur b) (es e)) as [c0|]; xrun; [|reflexivity].
    rewrite exec_call. cbn.
    destruct (sub64 (bmax b) sz) as [tgt|]; xrun; [|reflexivity].
    rewrite P2_lrucache_eject_to_target_call. cbn.
    destruct (b_eject _ _ c0 tgt) as [[[g1 c1] evd]|]; xrun; [|reflexivity].
    rewrite ?b_insert_unchecked_tomb_if.
    xcall P2_lrucache_insert_unchecked_call; [|exact Halloc]. rewrite tb_after_true.
    destruct (b_insert_unchecked E g1 (t_erase (btb b) (o_tomb (ob oB))) k v sz oB) as [[[g2 t2] rebuilt]|]; xrun; [|reflexivity].
    destruct (add64 c1 sz) as [c2|]; xrun; [|reflexivity].
    norm. cbn. unfold set_b. repeat f_equal. destruct rebuilt; evlog; evdone.
  - (* no duplicate *)
    xrun. rewrite exec_call. cbn.
    destruct (sub64 (bmax b) sz) as [tgt|] eqn:Htgt; xrun; [|reflexivity].
    rewrite P2_lrucache_eject_to_target_call. cbn.
    destruct (b_eject _ _ (bcur b) tgt) as [[[g1 c1] evd]|] eqn:He; xrun; [|reflexivity].
    rewrite b_insert_unchecked_tomb_if.
    assert (Ht : tb_after false (btb b) evd = t_erase (btb b) (o_tomb (ob (tomb_if (bmax b - sz <? bcur b) oB)))).
    { pose proof (b_eject_nil _ _ _ _ _ _ _ He) as Hn. unfold sub64 in Htgt. destruct (sz <=? bmax b); [|discriminate]. injection Htgt as <-.
      rewrite N.ltb_antisym. destruct evd; rewrite Hn; cbn; [rewrite t_erase_0|]; reflexivity. }
    rewrite <- Ht.
    xcall P2_lrucache_insert_unchecked_call; [|exact Halloc].
    destruct (b_insert_unchecked E g1 (tb_after false (btb b) evd) k v sz oB) as [[[g2 t2] rebuilt]|]; xrun; [|reflexivity].
    destruct (add64 c1 sz) as [c2|]; xrun; [|reflexivity].
    norm. cbn. unfold set_b. repeat f_equal. destruct rebuilt; evlog; evdone.
Qed.

(* ---------- try_insert ---------- *)
Definition out_try_insert (v : value) : option out :=
  match v with
  | VOk VUnit => Some OTryOk
  | VErr (VStruct n fs) =>
      if String.eqb n "EntryTooLarge" then out_too_large "EntryTooLarge" (VStruct n fs) OTryTooLarge
      else if String.eqb n "TryInsertError::WouldEjectLru" then
        match field "key" fs, field "value" fs, field "entry_size" fs, field "free_memory" fs with
        | Some (VKey k), Some (VVal w), Some (VNum sz), Some (VNum fr) => Some (OTryWouldEject k w sz fr)
        | _, _, _, _ => None
        end
      else if String.eqb n "TryInsertError::OccupiedEntry" then
        match field "key" fs, field "value" fs with
        | Some (VKey k), Some (VVal w) => Some (OTryOccupied k w)
        | _, _ => None
        end
      else None
  | _ => None
  end.

Theorem P2_lrucache_try_insert : forall b k v, o_alloc (ob oB) = true ->
  run lrucache_try_insert [VKey k; VVal v] out_try_insert b = stepB E VS b (TryInsert k v) oB.
Proof.
  intros b k v Halloc. unfold run_op, run_fn, init. xstart lrucache_try_insert. xrun.
  xcall P2_lrucache_prepare_insert_call. unfold stepB, bB_try_insert.
  destruct (esz E k v) as [sz|] eqn:Hsz; xrun; [|reflexivity].
  destruct (bmax b <? sz) eqn:Hlt; xrun; [reflexivity|].
  destruct (sub64 (bmax b) (bcur b)) as [fr|]; xrun; [|reflexivity].
  destruct (fr <? sz); xrun; [reflexivity|].
  rewrite N.eqb_refl.
  destruct (b_find (bg b) (kid k)) as [[a e]|]; xrun; [reflexivity|].
  xcall P2_lrucache_insert_unchecked_call; [|exact Halloc].
  destruct (b_insert_unchecked E (bg b) (btb b) k v sz oB) as [[[g2 t2] rebuilt]|]; xrun; [|reflexivity].
  destruct (add64 (bcur b) sz) as [c2|]; xrun; [|reflexivity].
  norm. cbn. unfold set_b. repeat f_equal. destruct rebuilt; evlog; evdone.
Qed.

(* ---------- mutate ---------- *)
Definition out_mutate (v : value) : option out :=
  match v with
  | VOk VNone => Some OMutNone
  | VOk (VSome _) => Some OMutOk
  | VErr (VStruct n fs) =>
      if String.eqb n "MutateError::EntryTooLarge" then
        match field "key" fs, field "value" fs, field "old_entry_size" fs, field "new_entry_size" fs, field "max_size" fs with
        | Some (VKey k), Some (VVal w), Some (VNum o), Some (VNum nw), Some (VNum mx) => Some (OMutTooLarge k w o nw mx)
        | _, _, _, _, _ => None
        end
      else None
  | _ => None
  end.
Definition mutated (e : entry) (nt nh : N) : val := {| vtok := vtok (ev e); vtag := nt; vheap := nh |}.
(* does mutate erase anything: the entry itself when it has become too large, or an eviction when it has grown *)
Definition mut_erases (b : bstate) (q nt nh : N) : bool :=
  match b_find (bg b) q with
  | Some (_, e) =>
      match msz VS (ev e), msz VS (mutated e nt nh) with
      | Some o, Some n => if (o <? n) && (es e + (n - o) <=? bmax b) then (bmax b - (n - o)) <? bcur b else true
      | _, _ => true
      end
  | None => true
  end.

Theorem P2_lrucache_mutate : forall b q nt nh,
  run lrucache_mutate [VId q; VMutOp nt nh] out_mutate b = stepB E VS b (Mutate q nt nh) (tomb_if (mut_erases b q nt nh) oB).
Proof.
  intros b q nt nh. unfold run_op, run_fn, init. xstart lrucache_mutate. xrun.
  xcall P2_lrucache_get_mut_from_table_call. unfold stepB, bB_mutate, mut_erases, mutated.
  destruct (b_find (bg b) q) as [[a e]|] eqn:Hf; xrun; [|reflexivity].
  pose proof (b_find_sound _ _ _ _ Hf) as He.
  destruct (set_val_facts (bg b) a e {| vtok := vtok (ev e); vtag := nt; vheap := nh |} q Hf) as (gm & Hsv & Hea & Hsm & Hfm).
  rewrite He. xrun.
  destruct (msz VS (ev e)) as [oldv|]; xrun; [|reflexivity].
  rewrite He. xrun. rewrite !Hsv. xrun.
  rewrite Hea. xrun.
  destruct (msz VS {| vtok := vtok (ev e); vtag := nt; vheap := nh |}) as [newv|]; xrun; [|reflexivity].
  destruct (oldv <? newv) eqn:Hcmp; xrun.
  - (* the value grew *)
    destruct (sub64 newv oldv) as [diff|] eqn:Hdiff; xrun; [|reflexivity].
    rewrite Hsm. xrun.
    destruct (add64 (es e) diff) as [nes|] eqn:Hnes; xrun; [|reflexivity].
    destruct (bmax b <? nes) eqn:Hbig; xrun.
    + (* too large now: removed *)
      rewrite Hsm. xrun.
      xcall P2_lrucache_remove_entry_call. rewrite Hfm. xrun.
      destruct (b_remove gm a) as [g'|]; xrun; [|reflexivity].
      destruct (sub64 (bcur b) (es e)) as [c|]; xrun; [|reflexivity].
      apply sub64_val in Hdiff. apply add64_val in Hnes. subst diff nes.
      rewrite N.leb_antisym, Hbig. reflexivity.
    + (* still fits: touch, make room, account *)
      destruct (b_touch gm a) as [gt|]; xrun; [|reflexivity].
      rewrite exec_call. cbn.
      destruct (sub64 (bmax b) diff) as [tgt|] eqn:Htgt; xrun; [|reflexivity].
      rewrite P2_lrucache_eject_to_target_call. cbn.
      destruct (b_eject _ gt (bcur b) tgt) as [[[g1 c1] evd]|] eqn:He1; xrun; [|reflexivity].
      destruct (b_set_size g1 a nes) as [g2|]; xrun; [|reflexivity].
      destruct (add64 c1 diff) as [c2|]; xrun; [|reflexivity].
      apply sub64_val in Hdiff. apply add64_val in Hnes. apply sub64_val in Htgt. subst diff nes tgt.
      rewrite N.leb_antisym, Hbig. cbn [negb]. rewrite N.ltb_antisym.
      pose proof (b_eject_nil _ _ _ _ _ _ _ He1) as Hn. unfold with_cur, with_g, set_b. cbn.
      destruct evd; rewrite Hn; cbn; [rewrite t_erase_0|]; repeat f_equal; evlog; evdone.
  - (* the value did not grow *)
    destruct (sub64 oldv newv) as [diff|]; xrun; [|reflexivity].
    rewrite Hsm. xrun.
    destruct (sub64 (es e) diff) as [nes|]; xrun; [|reflexivity].
    destruct (b_set_size gm a nes) as [g1|]; xrun; [|reflexivity].
    destruct (sub64 (bcur b) diff) as [c|]; xrun; [|reflexivity].
    destruct (b_touch g1 a) as [g2|]; xrun; reflexivity.
Qed.

(* ---------- insert_untracked (used by clone): try_insert_no_grow of an entry built elsewhere, then set_head ---------- *)
Theorem P2_lrucache_insert_untracked_call : forall n k v st, npay n = PLive k v ->
  callf lrucache_insert_untracked [VEntry None n] st =
  (let b := cs st in let g := bg b in let t := btb b in let a := ob_addr oB in
   let place (t' : tbl) :=
     if mem_addr a (gseal g :: glist g) then None else
     h' <- set_head (upd (gh g) a n) (gseal g) a ;;
     Some (VUnit, {| env := env st; cs := {| bg := {| gh := h'; gseal := gseal g; glist := a :: glist g |}; bcur := bcur b; bmax := bmax b; btb := t' |};
                     charged := charged st; lg := lg st ++ [LHash]; ret := ret st |}) in
   if andb (o_reuse (ob oB)) (0 <? tombs t) then place {| nb := nb t; tombs := tombs t - 1 |}
   else if 0 <? growth_left t (N.of_nat (List.length (glist g))) then place t
   else None).
Proof.
  intros n k v [en b ch l r] Hp. xstart lrucache_insert_untracked. xrun. unfold node_key_id. rewrite Hp. xrun.
  unfold try_insert_no_grow. cbn.
  destruct (o_reuse (ob oB) && (0 <? tombs (btb b))); xrun.
  - destruct (mem_addr (ob_addr oB) (gseal (bg b) :: glist (bg b))); xrun; [reflexivity|].
    destruct (set_head _ (gseal (bg b)) (ob_addr oB)); xrun; [|reflexivity]. norm. cbn. rewrite !app_nil_r. reflexivity.
  - destruct (0 <? growth_left (btb b) (N.of_nat (List.length (glist (bg b))))); xrun; [|reflexivity].
    destruct (mem_addr (ob_addr oB) (gseal (bg b) :: glist (bg b))); xrun; [reflexivity|].
    destruct (set_head _ (gseal (bg b)) (ob_addr oB)); xrun; [|reflexivity]. norm. cbn. rewrite !app_nil_r. reflexivity.
Qed.
(* ... which, for an entry whose links are (seal, seal.next) as Entry::new sets them, is b_insert_new *)
Corollary P2_lrucache_insert_untracked_new : forall x sz k v st,
  nextof (gh (bg (cs st))) (gseal (bg (cs st))) = Some x ->
  (0 <? growth_left (btb (cs st)) (N.of_nat (List.length (glist (bg (cs st)))))) = true ->
  (o_reuse (ob oB) && (0 <? tombs (btb (cs st)))) = false ->
  mem_addr (ob_addr oB) (gseal (bg (cs st)) :: glist (bg (cs st))) = false ->
  callf lrucache_insert_untracked [VEntry None {| nprev := gseal (bg (cs st)); nnext := x; nsize := sz; npay := PLive k v |}] st =
  (g' <- b_insert_new (bg (cs st)) (ob_addr oB) sz (PLive k v) ;;
   Some (VUnit, {| env := env st; cs := {| bg := g'; bcur := bcur (cs st); bmax := bmax (cs st); btb := btb (cs st) |};
                   charged := charged st; lg := lg st ++ [LHash]; ret := ret st |})).
Proof.
  intros x sz k v st Hx Hg Hr Hm. rewrite (P2_lrucache_insert_untracked_call {| nprev := gseal (bg (cs st)); nnext := x; nsize := sz; npay := PLive k v |} k v st eq_refl). cbn zeta. rewrite Hr, Hg, Hm, b_insert_new_eq, Hx. cbn.
  destruct (set_head _ (gseal (bg (cs st))) (ob_addr oB)); reflexivity.
Qed.

(* ---------- reserve / try_reserve / shrink_to / shrink_to_fit ----------
   A panic is a fault in OpLang; B/StepB.v reports it as the outcome OPanic (cache unchanged). *)
Definition no_panic (r : option (bstate * out * events)) : option (bstate * out * events) :=
  match r with Some (_, OPanic, _) => None | _ => r end.
Definition out_try_reserve (v : value) : option out :=
  match v with
  | VOk VUnit => Some OResOk
  | VErr (VStruct n _) =>
      if String.eqb n "TryReserveError::CapacityOverflow" then Some OResOverflow
      else if String.eqb n "TryReserveError::AllocError" then Some OResRefused else None
  | _ => None
  end.

Theorem P2_lrucache_new_capacity_call n st :
  callf lrucache_new_capacity [VNum n] st =
  Some (match add64 (N.of_nat (List.length (glist (bg (cs st))))) n with
        | Some w => VOk (VNum w)
        | None => VErr (VStruct "TryReserveError::CapacityOverflow" [])
        end, {| env := env st; cs := cs st; charged := charged st; lg := lg st; ret := ret st |}).
Proof.
  destruct st as [en b ch l r]. xstart lrucache_new_capacity. xrun.
  destruct (add64 (N.of_nat (List.length (glist (bg b)))) n); reflexivity.
Qed.

Theorem P2_lrucache_reserve : forall b n, run lrucache_reserve [VNum n] out_unit b = no_panic (stepB E VS b (Reserve n) oB).
Proof.
  intros b n. unfold run_op, run_fn, init. xstart lrucache_reserve. xrun. xcall P2_lrucache_new_capacity_call.
  unfold stepB, bB_realloc.
  destruct (add64 (N.of_nat (List.length (glist (bg b)))) n) as [w|]; xrun; [|reflexivity].
  destruct (capacity (btb b) <? w); xrun; [|reflexivity].
  xcall P2_lrucache_reallocate_call.
  destruct (t_alloc E w (o_alloc (ob oB))); xrun; try reflexivity.
  destruct (b_moves_chk (bg b) (ob_moves oB)); xrun; [|reflexivity]. unfold b_rebuilt_ev. evlog. rewrite ?N.add_0_r. reflexivity.
Qed.
Theorem P2_lrucache_try_reserve : forall b n, run lrucache_try_reserve [VNum n] out_try_reserve b = stepB E VS b (TryReserve n) oB.
Proof.
  intros b n. unfold run_op, run_fn, init. xstart lrucache_try_reserve. xrun. xcall P2_lrucache_new_capacity_call.
  unfold stepB, bB_realloc.
  destruct (add64 (N.of_nat (List.length (glist (bg b)))) n) as [w|]; xrun; [|reflexivity].
  destruct (capacity (btb b) <? w); xrun; [|reflexivity].
  xcall P2_lrucache_try_reallocate_call.
  destruct (t_alloc E w (o_alloc (ob oB))); xrun; try reflexivity.
  destruct (b_moves_chk (bg b) (ob_moves oB)); xrun; [|reflexivity]. unfold b_rebuilt_ev. evlog. rewrite ?N.add_0_r. reflexivity.
Qed.

Theorem P2_lrucache_shrink_to_call n st :
  callf lrucache_shrink_to [VNum n] st =
  (let b := cs st in
   let want := N.max (N.of_nat (List.length (glist (bg b)))) n in
   let same := Some (VUnit, {| env := env st; cs := b; charged := charged st; lg := lg st; ret := ret st |}) in
   if want <? capacity (btb b) then
     match t_alloc E want (o_alloc (ob oB)) with
     | AOk t' => if capacity t' <? capacity (btb b) then
                   g' <- b_moves_chk (bg b) (ob_moves oB) ;;
                   Some (VUnit, {| env := env st; cs := {| bg := g'; bcur := bcur b; bmax := bmax b; btb := t' |}; charged := charged st;
                                   lg := lg st ++ [LRehash (N.of_nat (List.length (glist (bg b))))]; ret := ret st |})
                 else same
     | _ => None
     end
   else same).
Proof.
  destruct st as [en b ch l r]. xstart lrucache_shrink_to. xrun.
  destruct (N.max (N.of_nat (List.length (glist (bg b)))) n <? capacity (btb b)); xrun; [|reflexivity].
  destruct (t_alloc E _ (o_alloc (ob oB))) as [t'| |]; xrun; try reflexivity.
  destruct (capacity t' <? capacity (btb b)); xrun; [|reflexivity].
  destruct (b_moves_chk (bg b) (ob_moves oB)); xrun; [|reflexivity]. norm. cbn. rewrite !app_nil_r. reflexivity.
Qed.
Theorem P2_lrucache_shrink_to : forall b n, run lrucache_shrink_to [VNum n] out_unit b = no_panic (stepB E VS b (ShrinkTo n) oB).
Proof.
  intros b n. unfold run_op, run_fn, init. rewrite P2_lrucache_shrink_to_call. unfold stepB, bB_shrink. cbn.
  destruct (N.max (N.of_nat (List.length (glist (bg b)))) n <? capacity (btb b)); cbn; [|reflexivity].
  destruct (t_alloc E _ (o_alloc (ob oB))) as [t'| |]; cbn; try reflexivity.
  destruct (capacity t' <? capacity (btb b)); cbn; [|reflexivity].
  destruct (b_moves_chk (bg b) (ob_moves oB)); cbn; [|reflexivity]. unfold b_rebuilt_ev. evlog. rewrite ?N.add_0_r. reflexivity.
Qed.
Theorem P2_lrucache_shrink_to_fit : forall b, run lrucache_shrink_to_fit [] out_unit b = no_panic (stepB E VS b ShrinkToFit oB).
Proof.
  intros b. unfold run_op, run_fn, init. xstart lrucache_shrink_to_fit. xrun. xcall P2_lrucache_shrink_to_call.
  unfold stepB, bB_shrink.
  destruct (N.max (N.of_nat (List.length (glist (bg b)))) 0 <? capacity (btb b)); xrun; [|reflexivity].
  destruct (t_alloc E _ (o_alloc (ob oB))) as [t'| |]; xrun; try reflexivity.
  destruct (capacity t' <? capacity (btb b)); xrun; [|reflexivity].
  destruct (b_moves_chk (bg b) (ob_moves oB)); xrun; [|reflexivity]. unfold b_rebuilt_ev. evlog. rewrite ?N.add_0_r. reflexivity.
Qed.
End S.

(* ---------- coverage: exactly these functions, every statement understood ---------- *)
Theorem P2_coverage :
  map fn_name all_ops =
  [ "LruCache::remove_from_table"; "LruCache::get_from_table"; "LruCache::get_mut_from_table";
    "LruCache::remove_metadata"; "LruCache::remove_ptr"; "LruCache::remove_lru"; "LruCache::remove_mru";
    "LruCache::eject_to_target"; "LruCache::set_max_size"; "LruCache::touch"; "LruCache::get_entry"; "LruCache::get";
    "LruCache::peek_entry"; "LruCache::peek"; "LruCache::contains"; "LruCache::remove_entry"; "LruCache::remove";
    "LruCache::get_lru"; "LruCache::peek_lru"; "LruCache::peek_mru"; "LruCache::insert_untracked";
    "LruCache::try_reallocate"; "LruCache::reallocate"; "LruCache::prepare_insert"; "LruCache::insert_unchecked";
    "LruCache::insert"; "LruCache::try_insert"; "LruCache::mutate"; "LruCache::new_capacity"; "LruCache::reserve";
    "LruCache::try_reserve"; "LruCache::shrink_to"; "LruCache::shrink_to_fit" ].
Proof. reflexivity. Qed.
Theorem P2_no_unknown : translator_unknowns = [] /\ flat_map (fun f => s_unknowns (fn_body f)) all_ops = [].
Proof. split; reflexivity. Qed.

Print Assumptions P2_lrucache_remove_metadata_call.
Print Assumptions P2_lrucache_remove_ptr_call.
Print Assumptions P2_lrucache_remove_lru_call.
Print Assumptions P2_lrucache_remove_mru_call.
Print Assumptions P2_lrucache_eject_to_target_call.
Print Assumptions P2_lrucache_get_mut_from_table_call.
Print Assumptions P2_lrucache_get_from_table_call.
Print Assumptions P2_lrucache_remove_lru.
Print Assumptions P2_lrucache_remove_mru.
Print Assumptions P2_lrucache_set_max_size_call.
Print Assumptions P2_lrucache_set_max_size.
Print Assumptions P2_lrucache_touch.
Print Assumptions P2_lrucache_get_entry_call.
Print Assumptions P2_lrucache_get_entry.
Print Assumptions P2_lrucache_get.
Print Assumptions P2_lrucache_peek_entry.
Print Assumptions P2_lrucache_peek.
Print Assumptions P2_lrucache_contains.
Print Assumptions P2_lrucache_remove_from_table_call.
Print Assumptions P2_lrucache_remove_entry_call.
Print Assumptions P2_lrucache_remove_entry.
Print Assumptions P2_lrucache_remove.
Print Assumptions P2_lrucache_get_lru.
Print Assumptions P2_lrucache_peek_lru.
Print Assumptions P2_lrucache_peek_mru.
Print Assumptions P2_lrucache_try_reallocate_call.
Print Assumptions P2_lrucache_reallocate_call.
Print Assumptions P2_lrucache_prepare_insert_call.
Print Assumptions P2_lrucache_insert_unchecked_call.
Print Assumptions P2_lrucache_insert.
Print Assumptions P2_lrucache_try_insert.
Print Assumptions P2_lrucache_mutate.
Print Assumptions P2_lrucache_insert_untracked_call.
Print Assumptions P2_lrucache_insert_untracked_new.
Print Assumptions P2_lrucache_new_capacity_call.
Print Assumptions P2_lrucache_reserve.
Print Assumptions P2_lrucache_try_reserve.
Print Assumptions P2_lrucache_shrink_to_call.
Print Assumptions P2_lrucache_shrink_to.
Print Assumptions P2_lrucache_shrink_to_fit.
Print Assumptions P2_coverage.
Print Assumptions P2_no_unknown.
