(* Layer G, proofs for C18.  Instantiates the checking functions of GenDefs.v with the tables of
   Gen/Sigs.v, which are REGENERATED from the Rust source on every check: the lemmas are statements
   about finite generated tables and are closed by computation; when the source changes so that one
   of them becomes false, this file no longer compiles - that is the intended signal
   (tools/sig_check.py then looks for a program that exhibits the failure).  The generic soundness
   lemma of the reachability computation is in GenDefs.v; the call-graph facts for C19 are in
   Gen/C19Static.v, which does not depend on this file. *)
From Coq Require Import String List Bool Arith.
Require Import LruV.Gen.GenDefs LruV.Gen.Sigs.
Import ListNotations.
Open Scope string_scope.
Open Scope list_scope.

(* ------------------------------------------------------------------------------------------- *)
(* the generated tables                                                                         *)
(* ------------------------------------------------------------------------------------------- *)

(* (i) Send / Sync of LruCache<K,V,S> as the manual impls in the source decide it.
   [lru_send sk sv ss]: K, V, S are Send exactly when sk, sv, ss (and are all Sync);
   [lru_sync sk sv ss]: K, V, S are Sync exactly when sk, sv, ss (and are all Send);
   [lru_marker tr k v s]: the general form, each parameter a pair (is Send, is Sync). *)
Definition lru_marker (tr : string) (k v s : bool * bool) : bool :=
  marker_holds marker_impls structs tr "LruCache" [k; v; s].
Definition lru_send (sk sv ss : bool) : bool := lru_marker "Send" (sk, true) (sv, true) (ss, true).
Definition lru_sync (sk sv ss : bool) : bool := lru_marker "Sync" (true, sk) (true, sv) (true, ss).

Lemma lru_send_spec : forall sk sv ss, lru_send sk sv ss = sk && sv && ss.
Proof. intros [|] [|] [|]; vm_compute; reflexivity. Qed.

Lemma lru_sync_spec : forall sk sv ss, lru_sync sk sv ss = sk && sv && ss.
Proof. intros [|] [|] [|]; vm_compute; reflexivity. Qed.

(* Send-ness depends on nothing but the Send-ness of the three parameters, Sync-ness likewise *)
Lemma lru_marker_send_exact : forall k v s, lru_marker "Send" k v s = fst k && fst v && fst s.
Proof. intros [[|] [|]] [[|] [|]] [[|] [|]]; vm_compute; reflexivity. Qed.

Lemma lru_marker_sync_exact : forall k v s, lru_marker "Sync" k v s = snd k && snd v && snd s.
Proof. intros [[|] [|]] [[|] [|]] [[|] [|]]; vm_compute; reflexivity. Qed.

(* a raw pointer blocks the auto impls: without the manual impls LruCache is neither Send nor Sync *)
Lemma lru_not_auto :
  auto_blocked structs "LruCache" = true /\
  (forall tr vals, marker_holds [] structs tr "LruCache" vals = false).
Proof.
  split; [vm_compute; reflexivity|].
  intros tr vals. unfold marker_holds. cbn [impls_for filter].
  replace (auto_blocked structs "LruCache") with true by (vm_compute; reflexivity).
  reflexivity.
Qed.

(* the impls that decide are the manual ones: exactly one per marker, `unsafe`, regular, positive *)
Definition one_regular_impl (tr : string) : bool :=
  match impls_for marker_impls tr "LruCache" with
  | [mi] => mi_unsafe mi && negb (mi_negative mi) && negb (mi_irregular mi)
  | _ => false
  end.
Lemma lru_manual_impls : one_regular_impl "Send" = true /\ one_regular_impl "Sync" = true.
Proof. split; vm_compute; reflexivity. Qed.

(* (ii) borrowing *)
Lemma sigs_tied : forallb tied_to_self sigs = true.
Proof. vm_compute; reflexivity. Qed.

(* non-vacuity: the table is not empty, it has rows that do return borrows, and the public
   reference-returning accessors the property names are among them *)
Definition row_named (n : string) : option sig_row := find (fun s => s_name s =? n) sigs.
Definition borrows (n : string) : bool :=
  match row_named n with Some s => has_borrow s | None => false end.
Lemma sigs_nonvacuous :
  forallb borrows ["LruCache::get"; "LruCache::get_entry"; "LruCache::get_lru"; "LruCache::peek";
                   "LruCache::peek_entry"; "LruCache::peek_lru"; "LruCache::peek_mru";
                   "LruCache::hasher"; "LruCache::iter"; "LruCache::keys"; "LruCache::values";
                   "LruCache::drain"; "Iter::new"; "Keys::new"; "Values::new"; "Drain::new";
                   "Iter::next"; "Iter::next_back"; "Keys::next"; "Values::next"] = true.
Proof. vm_compute; reflexivity. Qed.

(* (iii) the call graph names only functions it contains (the source half of clone names drops-only
   twins "<f>@drops", GenDefs.v: they are part of the graph the theorems of Gen/C19Static.v use) *)
Lemma fns_closed : graph_closed (with_drops_view fns) = true.
Proof. vm_compute; reflexivity. Qed.

