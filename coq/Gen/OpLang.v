(* Layer P2: a small deep embedding of the Rust subset used by the COMPOSITE operations of src/lib.rs
   (remove_metadata, remove_ptr, eject_to_target, insert, try_insert, mutate, set_max_size, ...), with an executable
   semantics over the Layer B state `bstate` of B/StepB.v and the oracle `oracleB`.
   The programs of Gen/OpBodies.v (GENERATED from the function bodies by `sigdump --ops`) are terms of this
   language; Gen/OpBodiesProps.v proves that each of them has exactly the semantics of the hand-written definition
   of B/StepB.v.  Definitions only.  `exec` is a structural recursion (loops take fuel), None = fault.

   What is PRIMITIVE here is what B/StepB.v treats as primitive: lookups in the table by key (b_find), taking an
   entry out of the table and unhinging it (together: b_remove), touch_ptr (b_touch), set_head, try_insert_no_grow
   with the oracle's bucket (together: b_insert_new + Layer T's t_insert), move_to_table (b_moves_chk), the
   allocator (t_alloc), the size estimators (esz, msz), lru_ptr / mru_ptr (b_lru / b_mru), the closure of mutate
   (b_set_val).  Everything else - the order of these actions, the arithmetic on current_size / max_size /
   entry.size, the conditions, the loops, the early returns, the values returned - is PROGRAM. *)
Require Export LruV.B.StepB.
From Coq Require Export String.

(* ---------- syntax ---------- *)
Inductive binop := BAdd | BSub | BMul | BMax.          (* checked +, -, * on usize; a.max(b) *)
Inductive cmpop := CLt | CLe | CGt | CGe | CEq | CNe.

Inductive expr :=
| EVar (x : string)
| ENum (n : N)
| EUnit
| ESelf (f : string)                  (* self.current_size | self.max_size | self.seal *)
| ECapacity                           (* self.table.capacity() / self.capacity() *)
| ELen                                (* self.table.len() / self.len() *)
| EBin (o : binop) (a b : expr)
| ECmp (o : cmpop) (a b : expr)
| ENot (a : expr)
| ECheckedAdd (a b : expr)            (* a.checked_add(b) : Option<usize> *)
| EPtrOf (e : expr)                   (* EntryPtr::new(e as *mut Entry<K, V>), e a reference into a bucket *)
| EDeref (e : expr)                   (* e.get() / e.get_mut() / e.get_extended(), e an EntryPtr *)
| ENext (e : expr)                    (* e.next *)
| EPrev (e : expr)                    (* e.prev *)
| ESize (e : expr)                    (* e.size through a reference (a read of the bucket), e.size() of an UnhingedEntry *)
| EKey (e : expr)                     (* e.key() *)
| EValue (e : expr)                   (* e.value() *)
| EMemSize (e : expr)                 (* e.mem_size(), e a &V *)
| EIntoKV (e : expr)                  (* e.into_key_value(), e an UnhingedEntry *)
| ETableCap (e : expr)                (* e.capacity(), e a RawTable that is not installed yet *)
| ENone | ESome (e : expr) | EOk (e : expr) | EErr (e : expr)
| EPair (a b : expr)
| EStruct (name : string) (fields : list (string * expr))
| EUnknown (text : string).            (* not understood: FAULT *)

(* the actions B/StepB.v treats as primitive *)
Inductive prim :=
| PHash             (* make_hash::<Q, S>(&self.hash_builder, key) / make_insert_hash::<K, S>(..)          [key] *)
| PFind             (* self.table.get / get_mut / find (hash, equivalent_key(key))                         [hash; key] *)
| PTableRemove      (* self.table.remove_entry(hash, equivalent_key(key))                                  [hash; key] *)
| PTableRemoveAt    (* self.remove_from_table(p.get().key()): the table gives back p's own bucket          [p] *)
| PEntryUnhinge     (* Entry::unhinge(self), the entry held by value                                       [entry] *)
| PUnhNew           (* UnhingedEntry::new(key, value): entry_size                                          [key; value] *)
| PEntryNew         (* Entry::new(unhinged, prev, next)                                                    [unhinged; prev; next] *)
| PTryInsert        (* self.insert_into_table_with_hash(hash, entry): try_insert_no_grow                   [hash; entry] *)
| PInsertNoHash     (* self.insert_into_table(entry): hashes the entry's key, then the same               [entry] *)
| PSetHead          (* self.set_head(p)                                                                    [p] *)
| PTouch            (* self.touch_ptr(p)                                                                   [p] *)
| PLru | PMru       (* self.lru_ptr() / self.mru_ptr()                                                     [] *)
| PApplyOp          (* op(entry.value_mut()): the closure of mutate writes the value                       [op; entry] *)
| PTryWithCapacity  (* RawTable::try_with_capacity(n)                                                      [n] *)
| PWithCapacity     (* RawTable::with_capacity(n): faults (panics) where the other returns Err             [n] *)
| PMoveToTable.     (* self.move_to_table(table)                                                           [table] *)

Inductive pat := PVar (x : string) | PWild | PPair (a b : pat).

Inductive lhs :=
| LVar (x : string)             (* x = .. *)
| LSelf (f : string)            (* self.current_size = .. / self.max_size = .. *)
| LSize (e : expr)              (* e.size = .., e a reference into a bucket *)
| LNextOf (x : string).         (* x.next = .., x an Entry held by value *)

(* right-hand sides and statements are one syntactic class (as in Rust, a statement is an expression of type ());
   one class also keeps `exec` a single structural recursion *)
Inductive tm :=
| RExp (e : expr)
| RPrim (p : prim) (args : list expr)
| RCall (name : string) (params : list string) (body : tm) (args : list expr)
                                  (* a call of another translated function: parameter list and body are carried in the node *)
| RMap (r : tm) (p : pat) (body : tm) (tail : tm)           (* r.map(|p| { body; tail }) on an Option *)
| RUnwrap (r : tm)                (* r.unwrap(): None / Err = FAULT (a panic is a fault here) *)
| RUnwrapUnchecked (r : tm)       (* r.unwrap_unchecked(): None / Err = fault (undefined behaviour) *)
| RTry (r : tm)                   (* r? : Err(e) returns Err(e) (the From conversion keeps the fields) *)
| RProj (r : tm) (i : nat)        (* r.0 / r.1 of a temporary pair: the other component is dropped *)
| RIsSome (r : tm)                (* r.is_some() *)
| ROkOr (r : tm) (e : expr)       (* r.ok_or(e) *)
| SSkip
| SSeq (a b : tm)
| SLet (p : pat) (r : tm)         (* let p = r; *)
| SDecl (x : string)              (* let x; *)
| SAssign (l : lhs) (r : tm)      (* l = r;   (l -= e is written l = l - e) *)
| SExpr (r : tm)                  (* r;   the value is dropped *)
| SIf (c : tm) (a b : tm)
| SIfSome (p : pat) (r : tm) (a b : tm)                      (* if let Some(p) = r { a } else { b } *)
| SMatchRes (r : tm) (p1 : pat) (a : tm) (p2 : pat) (b : tm) (* match r { Ok(p1) => a, Err(p2) => b } *)
| SWhile (c : expr) (body : tm)
| SLoop (body : tm)
| SRet (r : tm)                   (* return r; / the tail expression of a function *)
| SUnknown (text : string).       (* not understood: FAULT *)
Definition rhs := tm.
Definition stmt := tm.

Definition seq (l : list stmt) : stmt := fold_right SSeq SSkip l.
Record fn_decl := { fn_name : string; fn_params : list string; fn_body : stmt }.
Definition call (f : fn_decl) (args : list expr) : rhs := RCall (fn_name f) (fn_params f) (fn_body f) args.

(* ---------- values ---------- *)
Inductive value :=
| VUnit
| VNum (n : N)
| VBool (b : bool)
| VId (q : N)                            (* a borrowed lookup key &Q: only its identity matters *)
| VKey (k : key) | VKeyR (k : key)       (* an owned K, a &K *)
| VVal (v : val) | VValR (v : val)       (* an owned V, a &V *)
| VHash (q : N)                          (* the hash of a key with identity q *)
| VPtr (a : addr)                        (* EntryPtr *)
| VRef (a : addr)                        (* &Entry / &mut Entry into bucket a; forming it is not an access *)
| VEntry (from : option addr) (n : node) (* Entry held by value. Some a: taken out of bucket a of the table and not unhinged yet;
                                            None: built by Entry::new and not in the table yet *)
| VUnh (e : entry)                       (* UnhingedEntry { size, key, value } *)
| VKV (e : entry)                        (* an owned (K, V); es is GHOST (the size recorded when it left the list), used by the event log only *)
| VPair (a b : value)
| VNone | VSome (v : value) | VOk (v : value) | VErr (v : value)
| VStruct (name : string) (fields : list (string * value))
| VTable (t : tbl)                       (* a RawTable that is not installed *)
| VMutOp (newtag newheap : N)            (* the closure given to mutate: what it writes into the value *)
| VOpaque                                (* a value the model does not look into (the R of mutate) *)
| VUninit.                               (* let x; *)

(* ---------- the event log ---------- *)
Inductive logitem :=
| LHash                                  (* one key hash computed *)
| LRehash (n : N)                        (* table rebuilt: n keys hashed again *)
| LDrop (toks : list N)                  (* Drop ran for the objects with these tokens *)
| LDropKV (site : string) (e : entry)    (* an owned (K, V) was dropped as a whole, in function `site` *)
| LVisit (k : key) (v : val)             (* the predicate of retain was called *)
| LWrite (f : string).                   (* self.f was assigned (bookkeeping order: no event of Layer A, see Gen/OpBodiesProps.v) *)

Definition evict_site : string := "LruCache::eject_to_target".
(* the events of Layer A, read off the log. Evicted = the pairs dropped by eject_to_target. *)
Definition log_evicted (l : list logitem) : list entry :=
  flat_map (fun i => match i with LDropKV s e => if String.eqb s evict_site then [e] else [] | _ => [] end) l.
Definition log_dropped (l : list logitem) : list N :=
  flat_map (fun i => match i with LDrop t => t | LDropKV _ e => toks e | _ => [] end) l.
Definition log_hashes (l : list logitem) : N :=
  sumN (map (fun i => match i with LHash => 1 | LRehash n => n | _ => 0 end) l).
Definition log_rebuilt (l : list logitem) : bool :=
  existsb (fun i => match i with LRehash _ => true | _ => false end) l.
Definition log_visits (l : list logitem) : list (key * val) :=
  flat_map (fun i => match i with LVisit k v => [(k, v)] | _ => [] end) l.
Definition ev_of_log (l : list logitem) : events :=
  {| e_evicted := log_evicted l; e_dropped := log_dropped l; e_hashes := log_hashes l;
     e_rebuilt := log_rebuilt l; e_visits := log_visits l |}.

(* ---------- state ---------- *)
Definition envt := list (string * value).          (* newest binding first *)
Record state := { env : envt;
                  cs : bstate;                     (* the cache *)
                  charged : bool;                  (* an erasure has happened in this operation (see `charge`) *)
                  lg : list logitem;
                  ret : option value }.            (* Some v: the function is returning v *)

Fixpoint lookup (x : string) (en : envt) : option value :=
  match en with [] => None | (y, v) :: r => if String.eqb x y then Some v else lookup x r end.
Fixpoint update (x : string) (v : value) (en : envt) : option envt :=
  match en with
  | [] => None
  | (y, w) :: r => if String.eqb x y then Some ((y, v) :: r)
                   else match update x v r with Some r' => Some ((y, w) :: r') | None => None end
  end.
Fixpoint field (x : string) (l : list (string * value)) : option value :=
  match l with [] => None | (y, v) :: r => if String.eqb x y then Some v else field x r end.

Definition with_env (st : state) (en : envt) : state :=
  {| env := en; cs := cs st; charged := charged st; lg := lg st; ret := ret st |}.
Definition with_cs (st : state) (b : bstate) : state :=
  {| env := env st; cs := b; charged := charged st; lg := lg st; ret := ret st |}.
Definition with_ret (st : state) (r : option value) : state :=
  {| env := env st; cs := cs st; charged := charged st; lg := lg st; ret := r |}.
Definition add_log (st : state) (l : list logitem) : state :=
  {| env := env st; cs := cs st; charged := charged st; lg := lg st ++ l; ret := ret st |}.
Definition with_g (b : bstate) (g : gstate) : bstate := {| bg := g; bcur := bcur b; bmax := bmax b; btb := btb b |}.
Definition with_cur (b : bstate) (c : N) : bstate := {| bg := bg b; bcur := c; bmax := bmax b; btb := btb b |}.
Definition with_max (b : bstate) (m : N) : bstate := {| bg := bg b; bcur := bcur b; bmax := m; btb := btb b |}.
Definition with_tb (b : bstate) (t : tbl) : bstate := {| bg := bg b; bcur := bcur b; bmax := bmax b; btb := t |}.
Definition returning (st : state) : bool := match ret st with Some _ => true | None => false end.
(* leaving a block: the names it declared go out of scope (bindings are prepended, assignments keep positions) *)
Definition leave_block (outer st : state) : state :=
  with_env st (skipn (List.length (env st) - List.length (env outer)) (env st)).

Definition key_id (v : value) : option N :=
  match v with VId q => Some q | VKey k | VKeyR k => Some (kid k) | _ => None end.

(* what dropping a value logs; None: a value whose drop is not modelled (an Entry held by value has no drop glue:
   dropping it would leak the pair - treated as a fault) *)
Definition drop_log (site : string) (v : value) : option (list logitem) :=
  match v with
  | VUnit | VNum _ | VBool _ | VId _ | VKeyR _ | VValR _ | VHash _ | VPtr _ | VRef _ | VNone | VOpaque | VUninit => Some []
  | VKey k => Some [LDrop [ktok k]]
  | VVal v => Some [LDrop [vtok v]]
  | VKV e => Some [LDropKV site e]
  | VSome (VKV e) => Some [LDropKV site e]
  | VSome (VVal v) => Some [LDrop [vtok v]]
  | VSome (VPair (VKeyR _) (VValR _)) | VSome (VValR _) | VSome (VRef _) | VSome (VPtr _) => Some []
  | VPair (VKeyR _) (VValR _) => Some []
  | VOk VUnit => Some []
  | _ => None
  end.

(* binding a pattern; `_` drops what it is matched against *)
Fixpoint bind_pat (site : string) (p : pat) (v : value) (st : state) : option state :=
  match p with
  | PVar x => Some (with_env st ((x, v) :: env st))
  | PWild => l <- drop_log site v ;; Some (add_log st l)
  | PPair p1 p2 =>
      match v with
      | VKV e => st1 <- bind_pat site p1 (VKey (ek e)) st ;; bind_pat site p2 (VVal (ev e)) st1
      | VPair a b => st1 <- bind_pat site p1 a st ;; bind_pat site p2 b st1
      | _ => None
      end
  end.

Section Sem.
Variables (E VS : N) (oB : oracleB).

(* ---------- expressions: pure, may fault ---------- *)
Definition arith (o : binop) (a b : N) : option N :=
  match o with BAdd => add64 a b | BSub => sub64 a b | BMul => mul64 a b | BMax => Some (N.max a b) end.
Definition compare_n (o : cmpop) (a b : N) : bool :=
  match o with CLt => a <? b | CLe => a <=? b | CGt => b <? a | CGe => b <=? a | CEq => a =? b | CNe => negb (a =? b) end.

Fixpoint eval (en : envt) (b : bstate) (e : expr) {struct e} : option value :=
  let h := gh (bg b) in
  match e with
  | EVar x => lookup x en
  | ENum n => Some (VNum n)
  | EUnit => Some VUnit
  | ESelf f => if String.eqb f "current_size" then Some (VNum (bcur b))
               else if String.eqb f "max_size" then Some (VNum (bmax b))
               else if String.eqb f "seal" then Some (VPtr (gseal (bg b)))
               else None
  | ECapacity => Some (VNum (capacity (btb b)))
  | ELen => Some (VNum (N.of_nat (List.length (glist (bg b)))))
  | EBin o e1 e2 =>
      match eval en b e1, eval en b e2 with
      | Some (VNum x), Some (VNum y) => r <- arith o x y ;; Some (VNum r)
      | _, _ => None
      end
  | ECmp o e1 e2 =>
      match eval en b e1, eval en b e2 with
      | Some (VNum x), Some (VNum y) => Some (VBool (compare_n o x y))
      | Some (VPtr x), Some (VPtr y) => match o with CEq => Some (VBool (x =? y)) | CNe => Some (VBool (negb (x =? y))) | _ => None end
      | _, _ => None
      end
  | ENot e1 => match eval en b e1 with Some (VBool t) => Some (VBool (negb t)) | _ => None end
  | ECheckedAdd e1 e2 =>
      match eval en b e1, eval en b e2 with
      | Some (VNum x), Some (VNum y) => Some (match add64 x y with Some r => VSome (VNum r) | None => VNone end)
      | _, _ => None
      end
  | EPtrOf e1 => match eval en b e1 with Some (VRef a) => Some (VPtr a) | _ => None end
  | EDeref e1 => match eval en b e1 with Some (VPtr a) => Some (VRef a) | _ => None end
  | ENext e1 => match eval en b e1 with
                | Some (VRef a) => x <- nextof h a ;; Some (VPtr x)
                | Some (VEntry _ n) => Some (VPtr (nnext n))
                | _ => None end
  | EPrev e1 => match eval en b e1 with
                | Some (VRef a) => x <- prevof h a ;; Some (VPtr x)
                | Some (VEntry _ n) => Some (VPtr (nprev n))
                | _ => None end
  | ESize e1 => match eval en b e1 with
                | Some (VRef a) => x <- sizeof_node h a ;; Some (VNum x)
                | Some (VUnh u) => Some (VNum (es u))
                | _ => None end
  | EKey e1 => match eval en b e1 with
               | Some (VRef a) => u <- entry_at h a ;; Some (VKeyR (ek u))
               | Some (VUnh u) => Some (VKeyR (ek u))
               | _ => None end
  | EValue e1 => match eval en b e1 with
                 | Some (VRef a) => u <- entry_at h a ;; Some (VValR (ev u))
                 | _ => None end
  | EMemSize e1 => match eval en b e1 with
                   | Some (VValR v) => x <- msz VS v ;; Some (VNum x)
                   | _ => None end
  | EIntoKV e1 => match eval en b e1 with Some (VUnh u) => Some (VKV u) | _ => None end
  | ETableCap e1 => match eval en b e1 with Some (VTable t) => Some (VNum (capacity t)) | _ => None end
  | ENone => Some VNone
  | ESome e1 => v <- eval en b e1 ;; Some (VSome v)
  | EOk e1 => v <- eval en b e1 ;; Some (VOk v)
  | EErr e1 => v <- eval en b e1 ;; Some (VErr v)
  | EPair e1 e2 => v1 <- eval en b e1 ;; v2 <- eval en b e2 ;; Some (VPair v1 v2)
  | EStruct name fs =>
      vs <- (fix go (l : list (string * expr)) : option (list (string * value)) :=
               match l with
               | [] => Some []
               | (x, e1) :: r => v <- eval en b e1 ;; vr <- go r ;; Some ((x, v) :: vr)
               end) fs ;;
      Some (VStruct name vs)
  | EUnknown _ => None
  end.

Fixpoint eval_list (en : envt) (b : bstate) (l : list expr) : option (list value) :=
  match l with [] => Some [] | e :: r => v <- eval en b e ;; vs <- eval_list en b r ;; Some (v :: vs) end.

(* ---------- the primitives ---------- *)
(* The oracle's o_tomb is the number of tombstones ALL erasures of the operation left behind; no covered operation
   looks at the table accounting between two erasures, so the total is charged at the first one. *)
Definition charge (st : state) : state :=
  if charged st then st
  else {| env := env st; cs := with_tb (cs st) (t_erase (btb (cs st)) (o_tomb (ob oB))); charged := true; lg := lg st; ret := ret st |}.
(* RawTable::remove_entry found bucket a: the Entry is moved out (n), the bucket is not FULL any more; its bytes
   stay where they are until the entry has been unhinged *)
Definition take (a : addr) (st : state) : state :=
  let b := cs st in let g := bg b in
  charge (with_cs st (with_g b {| gh := gh g; gseal := gseal g; glist := remove_addr a (glist g) |})).
(* try_insert_no_grow: Layer T says whether there is room (t_insert's first two cases); the bucket is the oracle's *)
Definition try_insert_no_grow (n : node) (st : state) : option (value * state) :=
  let b := cs st in let g := bg b in let t := btb b in
  let items := N.of_nat (List.length (glist g)) in
  let ok (t' : tbl) :=
    if mem_addr (ob_addr oB) (gseal g :: glist g) then None else
    Some (VOk (VPtr (ob_addr oB)),
          with_cs st {| bg := {| gh := upd (gh g) (ob_addr oB) n; gseal := gseal g; glist := ob_addr oB :: glist g |};
                        bcur := bcur b; bmax := bmax b; btb := t' |}) in
  if andb (o_reuse (ob oB)) (0 <? tombs t) then ok {| nb := nb t; tombs := tombs t - 1 |}
  else if 0 <? growth_left t items then ok t
  else Some (VErr (VEntry None n), st).
Definition node_key_id (n : node) : option N := match npay n with PLive k _ => Some (kid k) | _ => None end.

Definition do_prim (p : prim) (vs : list value) (st : state) : option (value * state) :=
  let b := cs st in let g := bg b in let h := gh g in
  match p, vs with
  | PHash, [kv] => q <- key_id kv ;; Some (VHash q, add_log st [LHash])
  | PFind, [VHash q; kv] =>
      q' <- key_id kv ;;
      if q =? q' then Some (match b_find g q with Some (a, _) => VSome (VRef a) | None => VNone end, st) else None
  | PTableRemove, [VHash q; kv] =>
      q' <- key_id kv ;;
      if q =? q' then
        match b_find g q with
        | Some (a, _) => n <- h a ;; Some (VSome (VEntry (Some a) n), take a st)
        | None => Some (VNone, st)
        end
      else None
  | PTableRemoveAt, [VPtr a] =>
      _ <- entry_at h a ;;                                       (* p.get().key() *)
      n <- h a ;; Some (VSome (VEntry (Some a) n), take a (add_log st [LHash]))
  | PEntryUnhinge, [VEntry (Some a) n] =>
      h1 <- set_next h (nprev n) (nnext n) ;;
      h2 <- set_prev h1 (nnext n) (nprev n) ;;
      match npay n with
      | PLive k v => Some (VUnh {| ek := k; ev := v; es := nsize n |},
                           with_cs st (with_g b {| gh := free h2 a; gseal := gseal g; glist := glist g |}))
      | _ => None
      end
  | PUnhNew, [VKey k; VVal v] => sz <- esz E k v ;; Some (VUnh {| ek := k; ev := v; es := sz |}, st)
  | PEntryNew, [VUnh u; VPtr p; VPtr x] =>
      Some (VEntry None {| nprev := p; nnext := x; nsize := es u; npay := PLive (ek u) (ev u) |}, st)
  | PTryInsert, [VHash q; VEntry None n] =>
      q' <- node_key_id n ;; if q =? q' then try_insert_no_grow n st else None
  | PInsertNoHash, [VEntry None n] =>
      _ <- node_key_id n ;; try_insert_no_grow n (add_log st [LHash])
  | PSetHead, [VPtr a] => h' <- set_head h (gseal g) a ;; Some (VUnit, with_cs st (with_g b {| gh := h'; gseal := gseal g; glist := glist g |}))
  | PTouch, [VPtr a] => g' <- b_touch g a ;; Some (VUnit, with_cs st (with_g b g'))
  | PLru, [] => lp <- b_lru g ;; Some (match lp with Some a => VSome (VPtr a) | None => VNone end, st)
  | PMru, [] => lp <- b_mru g ;; Some (match lp with Some a => VSome (VPtr a) | None => VNone end, st)
  | PApplyOp, [VMutOp nt nh; VRef a] =>
      u <- entry_at h a ;;
      g' <- b_set_val g a (ek u) {| vtok := vtok (ev u); vtag := nt; vheap := nh |} ;;
      Some (VOpaque, with_cs st (with_g b g'))
  | PTryWithCapacity, [VNum n] =>
      Some (match t_alloc E n (o_alloc (ob oB)) with
            | AOk t => VOk (VTable t)
            | AOverflow => VErr (VStruct "TryReserveError::CapacityOverflow" [])
            | ARefused => VErr (VStruct "TryReserveError::AllocError" [])
            end, st)
  | PWithCapacity, [VNum n] =>
      match t_alloc E n (o_alloc (ob oB)) with AOk t => Some (VTable t, st) | _ => None end
  | PMoveToTable, [VTable t] =>
      g' <- b_moves_chk g (ob_moves oB) ;;
      Some (VUnit, add_log (with_cs st {| bg := g'; bcur := bcur b; bmax := bmax b; btb := t |}) [LRehash (N.of_nat (List.length (glist g)))])
  | _, _ => None
  end.

Definition assign (l : lhs) (v : value) (st : state) : option state :=
  let b := cs st in
  match l with
  | LVar x => en <- update x v (env st) ;; Some (with_env st en)
  | LSelf f => match v with
               | VNum n => if String.eqb f "current_size" then Some (add_log (with_cs st (with_cur b n)) [LWrite f])
                           else if String.eqb f "max_size" then Some (add_log (with_cs st (with_max b n)) [LWrite f])
                           else None
               | _ => None end
  | LSize e => match eval (env st) b e, v with
               | Some (VRef a), VNum n => g' <- b_set_size (bg b) a n ;; Some (with_cs st (with_g b g'))
               | _, _ => None end
  | LNextOf x => match lookup x (env st), v with
                 | Some (VEntry None n), VPtr p =>
                     en <- update x (VEntry None {| nprev := nprev n; nnext := p; nsize := nsize n; npay := npay n |}) (env st) ;;
                     Some (with_env st en)
                 | _, _ => None end
  end.

(* ---------- loops ---------- *)
(* while c { body }: fuel = the number of listed entries when the loop is entered (as b_eject / b_retain in StepB.v);
   running out of fuel with the condition still true is a fault (the loop would spin for ever) *)
Fixpoint while_loop (cond : state -> option bool) (body : state -> option state) (fuel : nat) (st : state) : option state :=
  c <- cond st ;;
  if c : bool then
    match fuel with
    | O => None
    | S f => st' <- body st ;; if returning st' then Some st' else while_loop cond body f st'
    end
  else Some st.
(* loop { body }: the only way out is `return`. Layer T (t_insert) treats a second failed try_insert_no_grow
   as a fault, so the loop of insert_unchecked gets two rounds *)
Fixpoint loop_n (body : state -> option state) (fuel : nat) (st : state) : option state :=
  match fuel with
  | O => None
  | S f => st' <- body st ;; if returning st' then Some st' else loop_n body f st'
  end.
Definition loop_fuel : nat := 2.

(* ---------- calls ---------- *)
Definition enter (ps : list string) (vs : list value) (st : state) : state :=
  {| env := combine ps vs; cs := cs st; charged := charged st; lg := lg st; ret := None |}.
(* what the caller sees: the value returned, the cache, the log *)
Definition leave (st st' : state) : value * state :=
  (match ret st' with Some v => v | None => VUnit end,
   {| env := env st; cs := cs st'; charged := charged st'; lg := lg st'; ret := ret st |}).

(* continue with (v, st1) unless a return is under way *)
Definition bindr (x : option (value * state)) (k : value -> state -> option (value * state)) : option (value * state) :=
  match x with
  | None => None
  | Some (v, st1) => if returning st1 then Some (VUnit, st1) else k v st1
  end.
Definition unit_of (o : option state) : option (value * state) := match o with Some st => Some (VUnit, st) | None => None end.
(* a block: what it declares goes out of scope at its end *)
Definition in_block (outer : state) (x : option (value * state)) : option (value * state) :=
  match x with Some (v, st) => Some (v, leave_block outer st) | None => None end.
Definition state_of (x : option (value * state)) : option state := match x with Some (_, st) => Some st | None => None end.

(* the condition of a while loop; a loop body as a block *)
Definition wcond (c : expr) : state -> option bool :=
  fun s1 => match eval (env s1) (cs s1) c with Some (VBool t) => Some t | _ => None end.
Definition block_of (f : state -> option (value * state)) : state -> option state :=
  fun s1 => state_of (in_block s1 (f s1)).

(* ---------- execution: statements yield VUnit ---------- *)
Fixpoint exec (fn : string) (s : tm) (st : state) {struct s} : option (value * state) :=
  match s with
  | RExp e => v <- eval (env st) (cs st) e ;; Some (v, st)
  | RPrim p args => vs <- eval_list (env st) (cs st) args ;; do_prim p vs st
  | RCall name ps body args =>
      vs <- eval_list (env st) (cs st) args ;;
      if Nat.eqb (List.length ps) (List.length vs) then
        x <- exec name body (enter ps vs st) ;; Some (leave st (snd x))
      else None
  | RMap r1 p body tail =>
      bindr (exec fn r1 st) (fun v st1 =>
        match v with
        | VNone => Some (VNone, st1)
        | VSome w =>
            in_block st1
              (st2 <- bind_pat fn p w st1 ;;
               bindr (exec fn body st2) (fun _ st3 =>
               bindr (exec fn tail st3) (fun t st4 => Some (VSome t, st4))))
        | _ => None
        end)
  | RUnwrap r1 =>
      bindr (exec fn r1 st) (fun v st1 =>
        match v with
        | VSome w | VOk w => Some (w, st1)
        | _ => None
        end)
  | RUnwrapUnchecked r1 =>
      bindr (exec fn r1 st) (fun v st1 =>
        match v with VSome w | VOk w => Some (w, st1) | _ => None end)
  | RTry r1 =>
      bindr (exec fn r1 st) (fun v st1 =>
        match v with
        | VOk w => Some (w, st1)
        | VErr e => Some (VUnit, with_ret st1 (Some (VErr e)))
        | _ => None
        end)
  | RProj r1 i =>
      bindr (exec fn r1 st) (fun v st1 =>
        match v, i with
        | VKV e, O => Some (VKey (ek e), add_log st1 [LDrop [vtok (ev e)]])
        | VKV e, S O => Some (VVal (ev e), add_log st1 [LDrop [ktok (ek e)]])
        | VPair a b, O => l <- drop_log fn b ;; Some (a, add_log st1 l)
        | VPair a b, S O => l <- drop_log fn a ;; Some (b, add_log st1 l)
        | _, _ => None
        end)
  | RIsSome r1 =>
      bindr (exec fn r1 st) (fun v st1 =>
        match v with VSome _ => Some (VBool true, st1) | VNone => Some (VBool false, st1) | _ => None end)
  | ROkOr r1 e =>
      bindr (exec fn r1 st) (fun v st1 =>
        match v with
        | VSome w => Some (VOk w, st1)
        | VNone => w <- eval (env st1) (cs st1) e ;; Some (VErr w, st1)
        | _ => None
        end)
  | SSkip => Some (VUnit, st)
  | SSeq a b => bindr (exec fn a st) (fun _ st1 => exec fn b st1)
  | SLet p r => bindr (exec fn r st) (fun v st1 => unit_of (bind_pat fn p v st1))
  | SDecl x => Some (VUnit, with_env st ((x, VUninit) :: env st))
  | SAssign l r => bindr (exec fn r st) (fun v st1 => unit_of (assign l v st1))
  | SExpr r => bindr (exec fn r st) (fun v st1 => l <- drop_log fn v ;; Some (VUnit, add_log st1 l))
  | SIf c a b =>
      bindr (exec fn c st) (fun v st1 =>
        match v with
        | VBool true => in_block st1 (exec fn a st1)
        | VBool false => in_block st1 (exec fn b st1)
        | _ => None
        end)
  | SIfSome p r a b =>
      bindr (exec fn r st) (fun v st1 =>
        match v with
        | VSome w => in_block st1 (st2 <- bind_pat fn p w st1 ;; exec fn a st2)
        | VNone => in_block st1 (exec fn b st1)
        | _ => None
        end)
  | SMatchRes r p1 a p2 b =>
      bindr (exec fn r st) (fun v st1 =>
        match v with
        | VOk w => in_block st1 (st2 <- bind_pat fn p1 w st1 ;; exec fn a st2)
        | VErr w => in_block st1 (st2 <- bind_pat fn p2 w st1 ;; exec fn b st2)
        | _ => None
        end)
  | SWhile c body => unit_of (while_loop (wcond c) (block_of (exec fn body)) (List.length (glist (bg (cs st)))) st)
  | SLoop body => unit_of (loop_n (block_of (exec fn body)) loop_fuel st)
  | SRet r => bindr (exec fn r st) (fun v st1 => Some (VUnit, with_ret st1 (Some v)))
  | SUnknown _ => None
  end.

(* ---------- running a function ---------- *)
Definition call_fn (f : fn_decl) (vs : list value) (st : state) : option (value * state) :=
  if Nat.eqb (List.length (fn_params f)) (List.length vs) then
    x <- exec (fn_name f) (fn_body f) (enter (fn_params f) vs st) ;; Some (leave st (snd x))
  else None.

Definition init (b : bstate) : state := {| env := []; cs := b; charged := false; lg := []; ret := None |}.
(* a public operation: value returned, final cache, whether it erased something, the log *)
Definition run_fn (f : fn_decl) (vs : list value) (b : bstate) : option (value * bstate * bool * list logitem) :=
  x <- call_fn f vs (init b) ;;
  let '(v, st) := x in Some (v, cs st, charged st, lg st).
(* ... read as Layer A/B read it: `proj` says which `out` the returned value stands for (None: not a value the
   operation can return: a fault) *)
Definition run_op (f : fn_decl) (vs : list value) (proj : value -> option out) (b : bstate) : option (bstate * out * events) :=
  x <- run_fn f vs b ;;
  let '(v, b', _, l) := x in
  o <- proj v ;; Some (b', o, ev_of_log l).
End Sem.

Lemma exec_call E VS oB fn f args st :
  exec E VS oB fn (call f args) st = (vs <- eval_list VS (env st) (cs st) args ;; call_fn E VS oB f vs st).
Proof. reflexivity. Qed.
Arguments call : simpl never.

(* ---------- what a program contains ---------- *)
Fixpoint e_unknowns (e : expr) : list string :=
  match e with
  | EUnknown t => [t]
  | EBin _ a b | ECmp _ a b | ECheckedAdd a b | EPair a b => e_unknowns a ++ e_unknowns b
  | ENot a | EPtrOf a | EDeref a | ENext a | EPrev a | ESize a | EKey a | EValue a | EMemSize a | EIntoKV a
  | ETableCap a | ESome a | EOk a | EErr a => e_unknowns a
  | EStruct _ fs => (fix go (l : list (string * expr)) := match l with [] => [] | (_, a) :: r => e_unknowns a ++ go r end) fs
  | _ => []
  end.
Definition l_unknowns (l : lhs) : list string := match l with LSize e => e_unknowns e | _ => [] end.
(* callee bodies are not descended into: every function is listed (and checked) on its own *)
Fixpoint s_unknowns (s : tm) : list string :=
  match s with
  | RExp e => e_unknowns e
  | RPrim _ args | RCall _ _ _ args => flat_map e_unknowns args
  | RMap r1 _ body tail => s_unknowns r1 ++ s_unknowns body ++ s_unknowns tail
  | RUnwrap r1 | RUnwrapUnchecked r1 | RTry r1 | RProj r1 _ | RIsSome r1 => s_unknowns r1
  | ROkOr r1 e => s_unknowns r1 ++ e_unknowns e
  | SSeq a b => s_unknowns a ++ s_unknowns b
  | SLet _ r | SExpr r | SRet r => s_unknowns r
  | SAssign l r => l_unknowns l ++ s_unknowns r
  | SIf c a b => s_unknowns c ++ s_unknowns a ++ s_unknowns b
  | SIfSome _ r a b => s_unknowns r ++ s_unknowns a ++ s_unknowns b
  | SMatchRes r _ a _ b => s_unknowns r ++ s_unknowns a ++ s_unknowns b
  | SWhile c body => e_unknowns c ++ s_unknowns body
  | SLoop body => s_unknowns body
  | SUnknown t => [t]
  | SSkip | SDecl _ => []
  end.
