(* Layer P: a tiny imperative pointer language, and its executable semantics over the heap of B/Heap.v.
   The programs of Gen/Bodies.v (GENERATED from the bodies of the unsafe pointer functions of src/entry.rs,
   src/lib.rs, src/iter.rs by sigdump --bodies) are terms of this language; Gen/BodiesProps.v proves that each
   of them has exactly the semantics of the hand-written transliteration in B/Heap.v (B/TakingB.v, B/StepB.v).
   Definitions only.  Everything is total: `exec` is a structural recursion, None = fault. *)
Require Export LruV.B.Heap.
From Coq Require Export String.

(* ---------- values ----------
   VNull / VPtr a : an EntryPtr (a raw pointer; copying it is free)
   VRef a         : a reference &Entry / &mut Entry obtained from an EntryPtr by get() / get_mut() / get_extended().
                    Forming the reference is not an access; the read or write through it is (and faults when
                    the address is not allocated)
   VNode n        : an Entry held BY VALUE (moved out of a bucket with ptr::read / remove_entry / the old table's
                    into_iter): a snapshot of the bucket, owning the payload
   VBool b        : a flag the caller supplies (cache.is_empty()) *)
Inductive value := VNull | VPtr (a : addr) | VRef (a : addr) | VNode (n : node) | VBool (b : bool).

(* ---------- syntax ---------- *)
Inductive expr :=
| EVar (x : string)        (* a local, a parameter, `self`, or a pointer-typed field of a struct parameter, named "self.seal", "cache.seal", "self.next" *)
| ENull                    (* EntryPtr::null() *)
| EDeref (e : expr)        (* e.get() / e.get_mut() / e.get_extended(): the reference behind an EntryPtr *)
| EPrev (e : expr)         (* e.prev, e a reference or an Entry held by value *)
| ENext (e : expr).        (* e.next *)

Inductive cond :=
| CEq (e1 e2 : expr)       (* e1 == e2 on EntryPtr (compares the raw pointers) *)
| CIsNull (e : expr)       (* e.is_null() *)
| CFlag (x : string).      (* a boolean supplied by the caller *)

(* what a function returns (tail expressions) *)
Inductive rexpr :=
| RNone                    (* None *)
| RSomePtr (e : expr)      (* Some(p), p an EntryPtr *)
| RSomeRefs (e : expr)     (* Some((e.key(), e.value())), e a reference: references into the bucket *)
| RSomeKV (e : expr)       (* Some(e.into_key_value()), e an Entry held by value: the pair is moved out *)
| RCursor (e1 e2 : expr).  (* Iter { next: e1, next_back: e2, .. } / TakingIterator { next: e1, next_back: e2 } *)

Inductive rval :=
| RVNone | RVSomePtr (a : addr) | RVSomeRefs (a : addr) | RVSomeKV (k : key) (v : val)
| RVCursor (n b : option addr).            (* None = null *)

Inductive stmt :=
| SSkip
| SSeq (s1 s2 : stmt)
| SLet (x : string) (e : expr)             (* let x = e;  x fresh, e pointer- or reference-valued *)
| SAssign (x : string) (e : expr)          (* x = e;  x already bound (self.next = ..) *)
| SLetTake (x : string) (e : expr)         (* let x = e.read();  ptr::read through the EntryPtr e: x holds the Entry by value, the bucket's payload is moved out *)
| SLetStore (x y : string)                 (* let x = self.table.insert(hash, y, &hasher);  the Entry y (by value) is written to the bucket the table picks (oracle); x is that bucket *)
| SSetPrev (e1 e2 : expr)                  (* e1.prev = e2;  e1 a reference, e2 an EntryPtr *)
| SSetNext (e1 e2 : expr)                  (* e1.next = e2 *)
| SIf (c : cond) (s1 s2 : stmt)
| SCall (name : string) (params : list string) (body : stmt) (args : list expr)
                                           (* a call of another translated function; the callee's parameter list and body are carried in the
                                              node (the generated file refers to the callee's definition), so no function table, no fuel, no recursion *)
| SRet (r : rexpr)                         (* the function's value; nothing after it is executed *)
| SOpaque (tag : string)                   (* a statement that does not touch the pointer structure, abstracted: skip. The tags allowed per
                                              function are a fixed whitelist in BodiesProps.v *)
| SUnknown (text : string).                (* a statement the translator did not understand: FAULT *)

Definition seq (l : list stmt) : stmt := fold_right SSeq SSkip l.

Record fn_decl := { fn_name : string; fn_params : list string; fn_body : stmt }.
Definition call (f : fn_decl) (args : list expr) : stmt := SCall (fn_name f) (fn_params f) (fn_body f) args.

(* ---------- state ---------- *)
Definition envt := list (string * value).
Record state := { env : envt; hp : heap; ret : option rval;
                  orc : list addr (* the bucket addresses hashbrown picks for table.insert, in order *) }.

Fixpoint lookup (x : string) (en : envt) : option value :=
  match en with [] => None | (y, v) :: r => if String.eqb x y then Some v else lookup x r end.
(* let: the name must be new (the translator rejects shadowing; this is the same check once more) *)
Definition bind_new (x : string) (v : value) (en : envt) : option envt :=
  match lookup x en with Some _ => None | None => Some (en ++ [(x, v)]) end.
(* assignment: the name must exist; its position is kept *)
Fixpoint update (x : string) (v : value) (en : envt) : option envt :=
  match en with
  | [] => None
  | (y, w) :: r => if String.eqb x y then Some ((y, v) :: r)
                   else match update x v r with Some r' => Some ((y, w) :: r') | None => None end
  end.
Fixpoint remove_var (x : string) (en : envt) : envt :=
  match en with [] => [] | (y, w) :: r => if String.eqb x y then r else (y, w) :: remove_var x r end.

(* ---------- expressions ---------- *)
Fixpoint eval (en : envt) (h : heap) (e : expr) : option value :=
  match e with
  | EVar x => lookup x en
  | ENull => Some VNull
  | EDeref e1 => match eval en h e1 with Some (VPtr a) => Some (VRef a) | _ => None end
  | EPrev e1 => match eval en h e1 with
                | Some (VRef a) => match prevof h a with Some p => Some (VPtr p) | None => None end
                | Some (VNode n) => Some (VPtr (nprev n))
                | _ => None
                end
  | ENext e1 => match eval en h e1 with
                | Some (VRef a) => match nextof h a with Some p => Some (VPtr p) | None => None end
                | Some (VNode n) => Some (VPtr (nnext n))
                | _ => None
                end
  end.

(* an EntryPtr value: Some None = null *)
Definition as_ptr (v : value) : option (option addr) :=
  match v with VNull => Some None | VPtr a => Some (Some a) | _ => None end.
Definition eval_ptr (en : envt) (h : heap) (e : expr) : option (option addr) := v <- eval en h e ;; as_ptr v.
Definition oaddr_eqb (a b : option addr) : bool :=
  match a, b with None, None => true | Some x, Some y => N.eqb x y | _, _ => false end.

Definition eval_cond (en : envt) (h : heap) (c : cond) : option bool :=
  match c with
  | CEq e1 e2 => a <- eval_ptr en h e1 ;; b <- eval_ptr en h e2 ;; Some (oaddr_eqb a b)
  | CIsNull e => a <- eval_ptr en h e ;; Some (match a with None => true | Some _ => false end)
  | CFlag x => match lookup x en with Some (VBool b) => Some b | _ => None end
  end.

Definition eval_ret (en : envt) (h : heap) (r : rexpr) : option rval :=
  match r with
  | RNone => Some RVNone
  | RSomePtr e => match eval en h e with Some (VPtr a) => Some (RVSomePtr a) | _ => None end
  | RSomeRefs e => match eval en h e with Some (VRef a) => Some (RVSomeRefs a) | _ => None end
  | RSomeKV e => match eval en h e with
                 | Some (VNode n) => match npay n with PLive k v => Some (RVSomeKV k v) | _ => None end
                 | _ => None
                 end
  | RCursor e1 e2 => a <- eval_ptr en h e1 ;; b <- eval_ptr en h e2 ;; Some (RVCursor a b)
  end.

(* arguments of a call: EntryPtr values only *)
Fixpoint eval_args (en : envt) (h : heap) (l : list expr) : option (list value) :=
  match l with
  | [] => Some []
  | e :: r => v <- eval en h e ;;
              match v with
              | VNull | VPtr _ => vs <- eval_args en h r ;; Some (v :: vs)
              | _ => None
              end
  end.

Definition moved_out (n : node) (k : key) (v : val) : node :=
  {| nprev := nprev n; nnext := nnext n; nsize := nsize n; npay := PMoved k v |}.

Definition with_env (st : state) (en : envt) : state := {| env := en; hp := hp st; ret := ret st; orc := orc st |}.
Definition with_heap (st : state) (h : heap) : state := {| env := env st; hp := h; ret := ret st; orc := orc st |}.

(* ---------- statements ---------- *)
Fixpoint exec (s : stmt) (st : state) : option state :=
  match s with
  | SSkip => Some st
  | SSeq a b => st1 <- exec a st ;; match ret st1 with Some _ => Some st1 | None => exec b st1 end
  | SLet x e =>
      v <- eval (env st) (hp st) e ;;
      match v with
      | VNull | VPtr _ | VRef _ => en <- bind_new x v (env st) ;; Some (with_env st en)
      | _ => None
      end
  | SAssign x e =>
      v <- eval (env st) (hp st) e ;;
      match v with
      | VNull | VPtr _ => en <- update x v (env st) ;; Some (with_env st en)
      | _ => None
      end
  | SLetTake x e =>
      v <- eval (env st) (hp st) e ;;
      match v with
      | VPtr a =>
          n <- hp st a ;;
          match npay n with
          | PLive k w => en <- bind_new x (VNode n) (env st) ;;
                         Some {| env := en; hp := upd (hp st) a (moved_out n k w); ret := ret st; orc := orc st |}
          | _ => None
          end
      | _ => None
      end
  | SLetStore x y =>
      match lookup y (env st), orc st with
      | Some (VNode n), a' :: o =>
          en <- bind_new x (VPtr a') (remove_var y (env st)) ;;
          Some {| env := en; hp := upd (hp st) a' n; ret := ret st; orc := o |}
      | _, _ => None
      end
  | SSetPrev e1 e2 =>
      v1 <- eval (env st) (hp st) e1 ;; v2 <- eval (env st) (hp st) e2 ;;
      match v1, v2 with
      | VRef a, VPtr b => h' <- set_prev (hp st) a b ;; Some (with_heap st h')
      | _, _ => None
      end
  | SSetNext e1 e2 =>
      v1 <- eval (env st) (hp st) e1 ;; v2 <- eval (env st) (hp st) e2 ;;
      match v1, v2 with
      | VRef a, VPtr b => h' <- set_next (hp st) a b ;; Some (with_heap st h')
      | _, _ => None
      end
  | SIf c a b => t <- eval_cond (env st) (hp st) c ;; if t then exec a st else exec b st
  | SCall _ ps body args =>
      vs <- eval_args (env st) (hp st) args ;;
      if Nat.eqb (List.length ps) (List.length vs) then
        st' <- exec body {| env := combine ps vs; hp := hp st; ret := None; orc := orc st |} ;;
        Some {| env := env st; hp := hp st'; ret := ret st; orc := orc st' |}
      else None
  | SRet r =>
      match ret st with
      | Some _ => None
      | None => rv <- eval_ret (env st) (hp st) r ;; Some {| env := env st; hp := hp st; ret := Some rv; orc := orc st |}
      end
  | SOpaque _ => Some st
  | SUnknown _ => None
  end.

(* running a function on argument values: positional, arity checked *)
Definition run (f : fn_decl) (args : list value) (o : list addr) (h : heap) : option state :=
  if Nat.eqb (List.length (fn_params f)) (List.length args)
  then exec (fn_body f) {| env := combine (fn_params f) args; hp := h; ret := None; orc := o |}
  else None.
(* what the caller sees of a function that takes its pointers by value: heap and returned value *)
Definition result (o : option state) : option (heap * option rval) :=
  match o with Some st => Some (hp st, ret st) | None => None end.

(* ---------- what a program contains (for the whitelist check; callee bodies are checked on their own) ---------- *)
Fixpoint opaque_tags (s : stmt) : list string :=
  match s with
  | SSeq a b => opaque_tags a ++ opaque_tags b
  | SIf _ a b => opaque_tags a ++ opaque_tags b
  | SOpaque t => [t]
  | _ => []
  end.
Fixpoint unknowns (s : stmt) : list string :=
  match s with
  | SSeq a b => unknowns a ++ unknowns b
  | SIf _ a b => unknowns a ++ unknowns b
  | SCall _ _ body _ => unknowns body
  | SUnknown t => [t]
  | _ => []
  end.
Fixpoint callees (s : stmt) : list string :=
  match s with
  | SSeq a b => callees a ++ callees b
  | SIf _ a b => callees a ++ callees b
  | SCall n _ _ _ => [n]
  | _ => []
  end.

Definition str_mem (x : string) (l : list string) : bool := existsb (String.eqb x) l.
Fixpoint assoc_tags (x : string) (l : list (string * list string)) : option (list string) :=
  match l with [] => None | (y, t) :: r => if String.eqb x y then Some t else assoc_tags x r end.
(* every opaque tag of f's body is allowed for f, and the body contains no Unknown statement *)
Definition tags_ok (allowed : list (string * list string)) (f : fn_decl) : bool :=
  match assoc_tags (fn_name f) allowed with
  | Some l => forallb (fun t => str_mem t l) (opaque_tags (fn_body f)) &&
              match unknowns (fn_body f) with [] => true | _ => false end
  | None => false
  end.

(* the statements of a body in order, sequences flattened (to state "this statement comes first") *)
Fixpoint flatten (s : stmt) : list stmt :=
  match s with
  | SSkip => []
  | SSeq a b => flatten a ++ flatten b
  | _ => [s]
  end.
