(* The growth clause of the C13 monitor (A/MonitorsA.v c13_mon, arms Insert / TryInsert) is satisfied by every step of the
   model: whenever an insertion changes the number of buckets, the new table is the smallest one holding twice the entries
   the table held when it refused the newcomer. *)
Require Import LruV.A.MonitorsA LruV.A.InvA LruV.A.SpecA LruV.T.TableA.

Section Params.
Variables (E VS : N).
Hypothesis E_pos : 0 < E.
Hypothesis VS_le_E : VS <= E.

Lemma t_insert_buckets t items o t' rb : items <= capacity t -> t_insert E t items o = Some (t', rb) ->
  nb t' = nb t \/ c2b (N.max (2 * items) 1) = Some (nb t').
Proof.
  intros Hle. unfold t_insert. destruct (o_reuse o && (0 <? tombs t)); [intros [= <- _]; now left|].
  unfold growth_left. destruct (N.ltb_spec 0 (capacity t - items)) as [|Hfull]; [intros [= <- _]; now left|].
  unfold mul64. destruct (N.ltb_spec (capacity t * 2) W); [|discriminate]. cbn [bind].
  destruct (t_alloc E (N.max (capacity t * 2) 1) true) as [t1| |] eqn:Ha; try discriminate.
  destruct (0 <? capacity t1 - items); [|discriminate]. intros [= <- _]. right.
  assert (Hc : capacity t = items) by lia. rewrite Hc in Ha. replace (items * 2) with (2 * items) in Ha by lia.
  unfold t_alloc in Ha. destruct (N.eqb_spec (N.max (2 * items) 1) 0); [lia|].
  destruct (c2b (N.max (2 * items) 1)) as [b|]; [|discriminate]. destruct (layout_ok E b); cbn [negb] in Ha; [|discriminate]. now injection Ha as <-.
Qed.

Lemma growth_arm pre post items : nb (tb post) = nb (tb pre) \/ c2b (N.max (2 * items) 1) = Some (nb (tb post)) -> len post - 1 = items ->
  (if nb (tb post) =? nb (tb pre) then true
   else match c2b (N.max (2 * (len post - 1)) 1) with Some b => nb (tb post) =? b | None => false end) = true.
Proof.
  intros [H|H] Hl; [rewrite H, N.eqb_refl; reflexivity|]. destruct (nb (tb post) =? nb (tb pre)); [reflexivity|].
  rewrite Hl, H. apply N.eqb_refl.
Qed.

Theorem c13_mon_growth_insert s k v o s' old evs : Inv E s -> kheap k + vheap v + E < W ->
  stepA E VS fixed s (Insert k v) o = Some (s', OInsOk old, evs) ->
  len s' - 1 <= capacity (t_erase (tb s) (o_tomb o)) ->          (* the table was not over-full (hashbrown's own invariant) *)
  c13_mon s (Insert k v) (OInsOk old) s' = true.
Proof.
  intros HI Hwf H Hcons. cbn [stepA] in H. cbn [c13_mon].
  destruct (insert_spec E VS E_pos VS_le_E s k v o _ HI Hwf H) as [[_ Hr]|(_ & evd & rest & t2 & rb & _ & _ & Ht & Hr)]; [discriminate|].
  injection Hr as -> _ _. unfold len in *. cbn [ents set_ents tb] in *. rewrite app_length in *. cbn [length] in *.
  replace (N.of_nat (length rest + 1) - 1) with (N.of_nat (length rest)) in * by lia.
  pose proof (t_insert_buckets _ _ _ _ _ Hcons Ht) as Hb. cbn [nb t_erase] in Hb.
  destruct Hb as [Hb|Hb]; [rewrite Hb, N.eqb_refl; reflexivity|]. destruct (nb t2 =? nb (tb s)); [reflexivity|]. rewrite Hb. apply N.eqb_refl.
Qed.

Theorem c13_mon_growth_try_insert s k v o s' evs : Inv E s -> kheap k + vheap v + E < W ->
  stepA E VS fixed s (TryInsert k v) o = Some (s', OTryOk, evs) ->
  len s <= capacity (tb s) ->
  c13_mon s (TryInsert k v) OTryOk s' = true.
Proof.
  intros HI Hwf H Hcons. cbn [stepA] in H. cbn [c13_mon].
  destruct (try_insert_spec E VS E_pos VS_le_E s k v o _ HI Hwf H) as [[_ Hr]|[(_ & _ & Hr)|[(_ & _ & Hr)|(_ & _ & t2 & rb & Ht & Hr)]]]; try discriminate.
  injection Hr as -> _. unfold len in *. cbn [ents set_ents tb] in *. rewrite app_length in *. cbn [length] in *.
  replace (N.of_nat (length (ents s) + 1) - 1) with (N.of_nat (length (ents s))) in * by lia.
  pose proof (t_insert_buckets _ _ _ _ _ Hcons Ht) as Hb.
  destruct Hb as [Hb|Hb]; [rewrite Hb, N.eqb_refl; reflexivity|]. destruct (nb t2 =? nb (tb s)); [reflexivity|]. rewrite Hb. apply N.eqb_refl.
Qed.
(* ---------- the whole C13 monitor ---------- *)
Definition hb_ok (s : cache) (p : op) (o : oracle) (s' : cache) : Prop :=
  match p with
  | Insert _ _ => len s' - 1 <= capacity (t_erase (tb s) (o_tomb o))    (* the table was not over-full: hashbrown's own invariant *)
  | TryInsert _ _ => len s <= capacity (tb s)
  | _ => True
  end.

Theorem c13_mon_sound s p o s' out evs : Inv E s -> wf_op E s p -> hb_ok s p o s' ->
  stepA E VS fixed s p o = Some (s', out, evs) -> c13_mon s p out s' = true.
Proof.
  intros HI Hwf Hhb H. destruct p; cbn [c13_mon]; try (destruct out; reflexivity).
  - (* insert *) destruct out; try reflexivity. cbn [hb_ok wf_op] in *. exact (c13_mon_growth_insert s k v o s' old evs HI Hwf H Hhb).
  - destruct out; try reflexivity. cbn [hb_ok wf_op] in *. exact (c13_mon_growth_try_insert s k v o s' evs HI Hwf H Hhb).
  - (* reserve *) destruct out; try reflexivity. cbn [stepA] in H.
    destruct (add64 (len s) n) as [w|] eqn:Ha; [|discriminate]. apply add64_inv in Ha as [-> _].
    destruct (N.ltb_spec (capacity (tb s)) (len s + n)); [|injection H as <- _; apply N.leb_le; lia].
    unfold do_realloc in H. destruct (t_alloc E (len s + n) (o_alloc o)) as [t| |] eqn:Hal; try discriminate.
    injection H as <- _. cbn [tb set_ents]. apply N.leb_le. now destruct (t_alloc_ok E _ _ _ Hal).
  - (* try_reserve *) cbn [stepA] in H. destruct (add64 (len s) n) as [w|] eqn:Ha.
    + apply add64_inv in Ha as [-> _]. destruct (N.ltb_spec (capacity (tb s)) (len s + n)).
      * unfold do_realloc in H. destruct (t_alloc E (len s + n) (o_alloc o)) as [t| |] eqn:Hal; injection H as <- <- _.
        -- cbn [tb set_ents]. apply N.leb_le. now destruct (t_alloc_ok E _ _ _ Hal).
        -- now rewrite !N.eqb_refl.
        -- now rewrite !N.eqb_refl.
      * injection H as <- <- _. apply N.leb_le. lia.
    + injection H as <- <- _. now rewrite !N.eqb_refl.
  - (* shrink_to *) destruct out; try reflexivity. cbn [stepA] in H. unfold do_shrink in H. cbn [shrink_orig fixed] in H.
    destruct (N.ltb_spec (N.max (len s) n) (capacity (tb s))) as [Hlt|Hge].
    + destruct (t_alloc E (N.max (len s) n) (o_alloc o)) as [t| |] eqn:Hal; try discriminate.
      destruct (N.ltb_spec (capacity t) (capacity (tb s))); injection H as <- _; cbn [tb set_ents].
      * destruct (t_alloc_ok E _ _ _ Hal) as (Hg & _). apply andb_true_iff. split; [apply N.leb_le; lia|].
        destruct (N.max (len s) n <=? capacity (tb s)); [apply N.leb_le; lia|reflexivity].
      * rewrite N.leb_refl. cbn [andb]. destruct (N.max (len s) n <=? capacity (tb s)); reflexivity.
    + injection H as <- _. rewrite N.leb_refl. cbn [andb]. destruct (N.max (len s) n <=? capacity (tb s)); reflexivity.
  - (* shrink_to_fit *) destruct out; try reflexivity. cbn [stepA] in H. unfold do_shrink in H. cbn [shrink_orig fixed] in H.
    rewrite N.max_0_r in H.
    destruct (N.ltb_spec (len s) (capacity (tb s))) as [Hlt|Hge].
    + destruct (t_alloc E (len s) (o_alloc o)) as [t| |] eqn:Hal; try discriminate.
      destruct (N.ltb_spec (capacity t) (capacity (tb s))); injection H as <- _; cbn [tb set_ents].
      * destruct (t_alloc_ok E _ _ _ Hal) as (Hg & _). apply andb_true_iff. split; [apply N.leb_le; lia|].
        destruct (len s <=? capacity (tb s)); [apply N.leb_le; lia|reflexivity].
      * rewrite N.leb_refl. cbn [andb]. destruct (len s <=? capacity (tb s)); reflexivity.
    + injection H as <- _. rewrite N.leb_refl. cbn [andb]. destruct (len s <=? capacity (tb s)); reflexivity.
Qed.
End Params.
