(* C13, growth bound over whole histories: however long the cache churns, the table's full capacity stays
   below max(4 x peak number of entries, 16) or at most what an explicit capacity request was granted. *)
Require Export LruV.T.TableA LruV.A.SpecA.

Definition explicit (p : op) : bool := match p with Reserve _ | TryReserve _ | ShrinkTo _ | ShrinkToFit => true | _ => false end.

Section Params.
Variables (E VS : N).
Hypothesis E_pos : 0 < E.
Hypothesis VS_le_E : VS <= E.
Notation Inv := (Inv E).

Lemma fullcap_erase t k : fullcap (t_erase t k) = fullcap t.
Proof. reflexivity. Qed.
Lemma fullcap_clear t : fullcap (t_clear t) = fullcap t.
Proof. reflexivity. Qed.

(* the table side of an insertion: the bucket count is untouched unless the table was rebuilt *)
Lemma t_insert_nb t items o t' : t_insert E t items o = Some (t', false) -> fullcap t' = fullcap t.
Proof.
  unfold t_insert. destruct (o_reuse o && (0 <? tombs t)); [intros [= <-]; reflexivity|].
  destruct (0 <? growth_left t items); [intros [= <-]; reflexivity|].
  destruct (mul64 (capacity t) 2); [|discriminate]. cbn [bind]. destruct (t_alloc E (N.max n 1) true); try discriminate.
  destruct (0 <? growth_left t0 items); discriminate.
Qed.

(* every operation other than the explicit capacity operations either leaves the bucket count alone or is a
   growing insertion *)
Lemma step_fullcap s p o s' out evs : Inv s -> wf_op E s p -> explicit p = false ->
  stepA E VS fixed s p o = Some (s', out, evs) ->
  (e_rebuilt evs = false /\ fullcap (tb s') = fullcap (tb s)) \/
  (e_rebuilt evs = true /\ exists t1 items, items + 1 = len s' /\ fullcap t1 = fullcap (tb s) /\ t_insert E t1 items o = Some (tb s', true)).
Proof.
  intros HI Hwf Hex H. destruct p; try discriminate Hex; cbn [stepA wf_op] in H, Hwf;
    try (injection H as <- <- <-; left; split; reflexivity).
  - destruct (insert_spec E VS E_pos VS_le_E s k v o _ HI Hwf H) as [[_ Hr]|(_ & evd & rest & t2 & rb & _ & _ & Ht & Hr)];
      injection Hr as -> -> ->; [left; split; reflexivity|]. cbn [e_rebuilt tb set_ents].
    destruct rb; [right|left].
    + split; [reflexivity|]. exists (t_erase (tb s) (o_tomb o)), (N.of_nat (length rest)). split; [unfold len; cbn [ents set_ents]; rewrite app_length; cbn [length]; lia|].
      split; [reflexivity|exact Ht].
    + split; [reflexivity|]. now rewrite (t_insert_nb _ _ _ _ Ht).
  - destruct (try_insert_spec E VS E_pos VS_le_E s k v o _ HI Hwf H) as [[_ Hr]|[(_ & _ & Hr)|[(_ & _ & Hr)|(_ & _ & t2 & rb & Ht & Hr)]]];
      injection Hr as -> -> ->; try (left; split; reflexivity). cbn [e_rebuilt tb set_ents].
    destruct rb; [right|left].
    + split; [reflexivity|]. exists (tb s), (len s). split; [unfold len; cbn [ents set_ents]; rewrite app_length; cbn [length]; lia|]. split; [reflexivity|exact Ht].
    + split; [reflexivity|]. now rewrite (t_insert_nb _ _ _ _ Ht).
  - destruct (do_touch s q) eqn:Ht. injection H as <- <- <-. left. split; [reflexivity|]. unfold do_touch in Ht. destruct (find_id q (ents s)); now injection Ht as <- <-.
  - destruct (do_touch s q) eqn:Ht. injection H as <- <- <-. left. split; [reflexivity|]. unfold do_touch in Ht. destruct (find_id q (ents s)); now injection Ht as <- <-.
  - destruct (do_touch s q) eqn:Ht. injection H as <- <- <-. left. split; [reflexivity|]. unfold do_touch in Ht. destruct (find_id q (ents s)); now injection Ht as <- <-.
  - destruct (ents s); injection H as <- <- <-; left; split; reflexivity.
  - destruct (find_id q (ents s)); [|injection H as <- <- <-; left; split; reflexivity].
    apply bind_some in H as ([s1 e1] & H1 & H). injection H as <- <- <-. unfold removed_ev in H1. apply bind_some in H1 as (c & _ & H1). injection H1 as <- <-. left. split; reflexivity.
  - destruct (find_id q (ents s)); [|injection H as <- <- <-; left; split; reflexivity].
    apply bind_some in H as ([s1 e1] & H1 & H). injection H as <- <- <-. unfold removed_ev in H1. apply bind_some in H1 as (c & _ & H1). injection H1 as <- <-. left. split; reflexivity.
  - destruct (ents s); [injection H as <- <- <-; left; split; reflexivity|].
    apply bind_some in H as ([s1 e1] & H1 & H). injection H as <- <- <-. unfold removed_ev in H1. apply bind_some in H1 as (c & _ & H1). injection H1 as <- <-. left. split; reflexivity.
  - destruct (ents s); [injection H as <- <- <-; left; split; reflexivity|].
    apply bind_some in H as ([s1 e1] & H1 & H). injection H as <- <- <-. unfold removed_ev in H1. apply bind_some in H1 as (c & _ & H1). injection H1 as <- <-. left. split; reflexivity.
  - pose proof (mutate_spec E VS E_pos VS_le_E s q newtag newheap o _ HI Hwf H) as Hs.
    destruct (find_id q (ents s)); [|injection Hs as -> -> ->; left; split; reflexivity].
    cbv zeta in Hs. destruct Hs as (_ & _ & _ & [(_ & _ & Hr)|[(_ & _ & evd & rest & _ & Hr)|(_ & Hr)]]); injection Hr as -> -> ->; left; split; reflexivity.
  - destruct (set_max_spec E VS E_pos VS_le_E s n o _ HI H) as (evd & rest & _ & Hr). injection Hr as -> -> ->. left. split; reflexivity.
  - apply bind_some in H as (c & _ & H). injection H as <- <- <-. left. split; reflexivity.
  - destruct (take_ends (ents s) pat). injection H as <- <- <-. left. split; reflexivity.
Qed.

(* histories with two ghost variables: the peak number of entries and the largest full capacity an explicit
   request (with_capacity, reserve, try_reserve; shrink only lowers) was granted. `table not over-full` is
   hashbrown's own invariant, assumed at growing insertions as in C13_auto_growth. *)
Inductive ReachG : cache -> N -> N -> Prop :=
| rg_new mx cap s : mx < W -> new_cache E mx cap = Some s -> ReachG s 0 (fullcap (tb s))
| rg_step s pk rq p o s' out evs : ReachG s pk rq -> wf_op E s p -> stepA E VS fixed s p o = Some (s', out, evs) ->
    (forall t1 items, t_insert E t1 items o = Some (tb s', true) -> items + 1 = len s' -> items <= capacity t1) ->
    ReachG s' (N.max pk (len s')) (if explicit p then N.max rq (fullcap (tb s')) else rq).

Lemma ReachG_inv s pk rq : ReachG s pk rq -> Inv s.
Proof.
  induction 1 as [mx cap s Hmx Hnew|s pk rq p o s' out evs _ IH Hwf Hstep _].
  - eapply reach_inv; eauto. eapply reach_new; eauto.
  - apply (step_inv E VS E_pos VS_le_E s p o _ IH Hwf Hstep).
Qed.

Theorem growth_bounded s pk rq : ReachG s pk rq ->
  len s <= pk /\ (fullcap (tb s) < N.max (4 * pk) 16 \/ fullcap (tb s) <= rq).
Proof.
  induction 1 as [mx cap s Hmx Hnew|s pk rq p o s' out evs HR IH Hwf Hstep Hadm].
  - unfold new_cache in Hnew. destruct (t_alloc E cap true); try discriminate. injection Hnew as <-. unfold len. cbn [ents length]. split; [lia|]. right. cbn [tb]. lia.
  - destruct IH as [IHl IHc]. split; [lia|]. destruct (explicit p) eqn:Hex; [right; lia|].
    pose proof (ReachG_inv s pk rq HR) as HI.
    destruct (step_fullcap s p o s' out evs HI Hwf Hex Hstep) as [[_ Hsame]|(_ & t1 & items & Hit & Hf1 & Hti)].
    + rewrite Hsame. destruct IHc as [IHc|IHc]; [left|right; exact IHc]. lia.
    + left. destruct (t_insert_growth E t1 items o (tb s') (Hadm t1 items Hti Hit) Hti) as (_ & Htz & _ & Hlt).
      assert (Hfc : fullcap (tb s') = capacity (tb s')) by (unfold capacity; rewrite Htz; lia). rewrite Hfc. lia.
Qed.
End Params.
