(* Layer T: arithmetic of hashbrown's capacity accounting (capacity_to_buckets, bucket_mask_to_capacity)
   and what allocation / growth / insertion do to the abstract table.  C13. *)
Require Export LruV.A.ListLemmas.
From Coq Require Import ZArith.
Ltac Zify.zify_post_hook ::= Z.div_mod_to_equations.

Lemma npow2_bounds n : 1 < n -> n <= npow2 n < 2 * n.
Proof.
  intros H. unfold npow2. destruct (N.log2_up_spec n H) as [Hlo Hhi]. split; [exact Hhi|].
  assert (E : N.log2_up n = N.succ (N.pred (N.log2_up n))).
  { rewrite N.succ_pred; [reflexivity|]. pose proof (N.log2_up_pos n H). lia. }
  rewrite E, N.pow_succ_r'. lia.
Qed.

(* a power of two that is at least 9 is a multiple of 8 and at least 16 *)
Lemma pow2_ge9 k : 9 <= 2 ^ k -> 4 <= k /\ 2 ^ k = 8 * 2 ^ (k - 3).
Proof.
  intros H9. assert (Hk : 4 <= k).
  { destruct (N.le_gt_cases 4 k); [assumption|]. exfalso.
    assert (Hp3 : 2 ^ k <= 2 ^ 3) by (apply N.pow_le_mono_r; lia). change (2 ^ 3) with 8 in Hp3. lia. }
  split; [exact Hk|]. replace k with (3 + (k - 3)) at 1 by lia. rewrite N.pow_add_r. reflexivity.
Qed.

(* capacity of a table with b buckets, for the b that capacity_to_buckets produces *)
Lemma c2b_spec n b : 0 < n -> c2b n = Some b ->
  n <= b2c (b - 1) /\ 4 <= b /\ (8 <= n -> b2c (b - 1) < 2 * n /\ 16 <= b).
Proof.
  intros Hn. unfold c2b, b2c. destruct (N.ltb_spec n 8) as [Hs|Hl].
  - intros [= <-]. destruct (N.ltb_spec n 4); [change (if 4 - 1 <? 8 then 4 - 1 else (4 - 1 + 1) / 8 * 7) with 3|change (if 8 - 1 <? 8 then 8 - 1 else (8 - 1 + 1) / 8 * 7) with 7]; (split; [lia|split; [lia|intros; lia]]).
  - unfold mul64. destruct (N.ltb_spec (n * 8) W) as [_|]; [|discriminate]. cbn [bind]. intros [= <-].
    assert (H9 : 9 <= n * 8 / 7) by lia. assert (H8 : 1 < n * 8 / 7) by lia.
    destruct (npow2_bounds _ H8) as [Hlo Hhi]. unfold npow2 in *. set (k := N.log2_up (n * 8 / 7)) in *.
    destruct (pow2_ge9 k ltac:(lia)) as [Hk E8].
    assert (Hp4 : 2 ^ 4 <= 2 ^ k) by (apply N.pow_le_mono_r; lia). change (2 ^ 4) with 16 in Hp4.
    destruct (N.ltb_spec (2 ^ k - 1) 8); [lia|].
    replace (2 ^ k - 1 + 1) with (2 ^ k) by lia.
    assert (Ediv : 2 ^ k / 8 = 2 ^ (k - 3)) by (rewrite E8, N.mul_comm, N.div_mul; lia).
    rewrite Ediv. set (P := 2 ^ (k - 3)) in *. repeat split; try lia.
Qed.

Section Params.
Variable E : N.

Lemma t_alloc_ok n ok t : t_alloc E n ok = AOk t -> n <= capacity t /\ tombs t = 0 /\ (n = 0 -> nb t = 1) /\ (0 < n -> 4 <= nb t).
Proof.
  unfold t_alloc. destruct (N.eqb_spec n 0) as [->|Hn].
  - intros [= <-]. unfold capacity, fullcap. cbn. repeat split; lia.
  - destruct (c2b n) as [b|] eqn:Hc; [|discriminate]. destruct (layout_ok E b); cbn [negb]; [|discriminate].
    destruct ok; [|discriminate]. intros [= <-]. destruct (c2b_spec n b ltac:(lia) Hc) as (H1 & H2 & _).
    unfold capacity, fullcap. cbn [nb tombs]. destruct (N.eqb_spec b 1); [lia|]. repeat split; lia.
Qed.

(* a table without tombstones and with room takes an insertion without changing (no growth) *)
Lemma t_insert_room t items o : tombs t = 0 -> items < capacity t -> t_insert E t items o = Some (t, false).
Proof.
  intros Ht Hroom. unfold t_insert. rewrite Ht. destruct (o_reuse o); cbn [andb]; (destruct (N.ltb_spec 0 0); [lia|]);
  unfold growth_left; (destruct (N.ltb_spec 0 (capacity t - items)); [reflexivity|lia]).
Qed.

(* automatic growth happens only when the table is full, and takes it to the smallest table size holding
   twice the current entries: the new capacity is below max(4 x entries, 16) *)
Lemma t_insert_growth t items o t' : items <= capacity t -> t_insert E t items o = Some (t', true) ->
  capacity t = items /\ tombs t' = 0 /\ items < capacity t' /\ capacity t' < N.max (4 * items) 16.
Proof.
  intros Hle. unfold t_insert. destruct (o_reuse o && (0 <? tombs t)); [discriminate|].
  unfold growth_left. destruct (N.ltb_spec 0 (capacity t - items)) as [|Hfull]; [discriminate|].
  unfold mul64. destruct (N.ltb_spec (capacity t * 2) W); [|discriminate]. cbn [bind].
  destruct (t_alloc E (N.max (capacity t * 2) 1) true) as [t1| |] eqn:Ha; try discriminate.
  destruct (N.ltb_spec 0 (capacity t1 - items)); [|discriminate]. intros [= <-].
  assert (Hc : capacity t = items) by lia. split; [exact Hc|].
  destruct (t_alloc_ok _ _ _ Ha) as (Hge & Htz & _). split; [exact Htz|]. split; [lia|].
  unfold t_alloc in Ha. destruct (N.eqb_spec (N.max (capacity t * 2) 1) 0); [lia|].
  destruct (c2b (N.max (capacity t * 2) 1)) as [b|] eqn:Hcb; [|discriminate].
  destruct (layout_ok E b); cbn [negb] in Ha; [|discriminate]. injection Ha as <-.
  unfold capacity at 1, fullcap. cbn [nb tombs].
  destruct (c2b_spec (N.max (capacity t * 2) 1) b ltac:(lia) Hcb) as (H1 & H2 & H3). destruct (N.eqb_spec b 1); [lia|].
  destruct (N.lt_ge_cases (N.max (capacity t * 2) 1) 8) as [Hsmall|Hbig].
  - unfold c2b in Hcb. destruct (N.ltb_spec (N.max (capacity t * 2) 1) 8); [|lia].
    injection Hcb as <-. destruct (N.max (capacity t * 2) 1 <? 4); [change (b2c (4 - 1)) with 3|change (b2c (8 - 1)) with 7]; lia.
  - destruct (H3 Hbig) as (Hub & _). lia.
Qed.
End Params.

(* ---------- the table never refuses an insertion for tables of any realistic size ----------
   With C01_arith ("a step is undefined only if the table refuses to grow") this closes the arithmetic-safety
   statement: for entries of up to 255 bytes of inline size and tables below 2^48 entries, every step is defined. *)
Section Total.
Variable E : N.
Hypothesis E_small : 0 < E < 256.

Lemma c2b_small n : 0 < n -> n < 2 ^ 50 -> exists b, c2b n = Some b /\ b < 2 ^ 52 /\ 4 <= b.
Proof.
  intros Hn Hlt. unfold c2b. destruct (N.ltb_spec n 8).
  - eexists. split; [reflexivity|]. destruct (n <? 4); split; try lia; change (2 ^ 52) with 4503599627370496; lia.
  - unfold mul64. assert (HW : n * 8 < W) by (unfold W; change (2 ^ 50) with 1125899906842624 in Hlt; lia).
    destruct (N.ltb_spec (n * 8) W); [|lia]. cbn [bind]. eexists. split; [reflexivity|].
    assert (H8 : 1 < n * 8 / 7) by lia. destruct (npow2_bounds _ H8) as [Hlo Hhi].
    change (2 ^ 50) with 1125899906842624 in Hlt. change (2 ^ 52) with 4503599627370496. split; lia.
Qed.

Lemma layout_ok_small b : b < 2 ^ 52 -> layout_ok E b = true.
Proof.
  intros Hb. change (2 ^ 52) with 4503599627370496 in Hb. unfold layout_ok, mul64, add64, W.
  assert (HP : E * b <= 255 * b) by (apply N.mul_le_mono_r; lia). set (P := E * b) in *.
  destruct (N.ltb_spec P 18446744073709551616); [|lia]. destruct (N.ltb_spec (P + 15) 18446744073709551616); [|lia].
  destruct (N.ltb_spec ((P + 15) / 16 * 16 + (b + 16)) 18446744073709551616); [apply N.leb_le|]; lia.
Qed.

Theorem t_insert_total t items o : items <= capacity t -> capacity t < 2 ^ 48 -> t_insert E t items o <> None.
Proof.
  intros Hle Hsmall. unfold t_insert. destruct (o_reuse o && (0 <? tombs t)); [discriminate|].
  unfold growth_left. destruct (N.ltb_spec 0 (capacity t - items)); [discriminate|].
  change (2 ^ 48) with 281474976710656 in Hsmall.
  unfold mul64. destruct (N.ltb_spec (capacity t * 2) W); [|unfold W in *; lia]. cbn [bind].
  set (n := N.max (capacity t * 2) 1). assert (Hn : 0 < n /\ n < 2 ^ 50) by (unfold n; change (2 ^ 50) with 1125899906842624; lia).
  destruct (c2b_small n (proj1 Hn) (proj2 Hn)) as (b & Hc & Hb & Hb4).
  unfold t_alloc. destruct (N.eqb_spec n 0); [lia|]. rewrite Hc, (layout_ok_small b Hb). cbn [negb].
  destruct (c2b_spec n b (proj1 Hn) Hc) as (Hge & _ & _).
  unfold capacity at 1, fullcap. cbn [nb tombs]. destruct (N.eqb_spec b 1); [lia|].
  destruct (N.ltb_spec 0 (b2c (b - 1) - 0 - items)); [discriminate|]. unfold n in Hge. lia.
Qed.
End Total.
