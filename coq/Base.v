(* Common vocabulary: checked 64-bit arithmetic, option monad, keys and values.
   Definitions only (no proofs) so that the model extracts even when a proof breaks. *)
From Coq Require Export List NArith Bool.
Export ListNotations.
Open Scope N_scope.

(* ---------- 64-bit checked arithmetic ----------
   Every usize `+`, `-`, `*` of the Rust source is written with these; None is what a
   debug build turns into a panic and a release build into a silent wrap. *)
Definition W : N := 18446744073709551616.        (* 2^64 *)
Definition add64 (a b : N) : option N := if a + b <? W then Some (a + b) else None.
Definition sub64 (a b : N) : option N := if b <=? a then Some (a - b) else None.
Definition mul64 (a b : N) : option N := if a * b <? W then Some (a * b) else None.
Definition bind {A B} (o : option A) (f : A -> option B) : option B :=
  match o with Some a => f a | None => None end.
Notation "x <- e ;; k" := (bind e (fun x => k)) (at level 61, e at next level, right associativity).

(* ---------- keys and values as the harness instruments them ----------
   kid  : identity used by Eq / Hash / Borrow
   ktok : object token (unique per constructed key object; what Drop reports)
   kheap: what k.heap_size() returns
   vtok : object token of the value, vtag : its content, vheap : v.heap_size() *)
Record key := { kid : N; ktok : N; kheap : N }.
Record val := { vtok : N; vtag : N; vheap : N }.

Definition sumN (l : list N) : N := fold_right N.add 0 l.
