//! Shared instrumentation for the correspondence harness: instrumented key / value types,
//! hashers, a deterministic PRNG, thread-local call counters and an "armed panic" facility.

#[macro_use]
mod trace_macro;
// the trace machinery, instantiated for several key / value / hasher types (needs_drop, the default hasher and the
// hasher-less constructors are type-level facts a single instantiation cannot vary)
trace_mod!(trace, VKey, VVal, LruCache<VKey, VVal, BH>, |max: usize, cap: usize, hk: u8| if cap == 0 && hk % 2 == 0 { LruCache::with_hasher(max, BH(hk)) } else { LruCache::with_capacity_and_hasher(max, cap, BH(hk)) }, "dd");
trace_mod!(trace_pd, PKey, VVal, LruCache<PKey, VVal, BH>, |max: usize, cap: usize, hk: u8| LruCache::with_capacity_and_hasher(max, cap, BH(hk)), "pd");
trace_mod!(trace_dp, VKey, PVal, LruCache<VKey, PVal, BH>, |max: usize, cap: usize, hk: u8| LruCache::with_capacity_and_hasher(max, cap, BH(hk)), "dp");
trace_mod!(trace_dn, VKey, NVal, LruCache<VKey, NVal, BH>, |max: usize, cap: usize, hk: u8| LruCache::with_capacity_and_hasher(max, cap, BH(hk)), "dn");
trace_mod!(trace_df, VKey, VVal, LruCache<VKey, VVal>, |max: usize, cap: usize, _hk: u8| if cap == 0 { LruCache::new(max) } else { LruCache::with_capacity(max, cap) }, "df");

use lru_mem::{HeapSize, LruCache};
use std::borrow::Borrow;
use std::cell::{Cell, RefCell};
use std::hash::{BuildHasher, Hash, Hasher};

thread_local! {
    pub static HASHES: Cell<u64> = Cell::new(0);
    pub static EQS: Cell<u64> = Cell::new(0);
    pub static CLONES: Cell<u64> = Cell::new(0);
    pub static SIZES: Cell<u64> = Cell::new(0);
    /// tokens whose Drop ran, in order
    pub static DROPS: RefCell<Vec<u64>> = RefCell::new(Vec::new());
    /// (original token, copy token) for every Clone of a key or value
    pub static CLONE_LOG: RefCell<Vec<(u64, u64)>> = RefCell::new(Vec::new());
    pub static NEXT_CLONE_TOK: Cell<u64> = Cell::new(1_000_000_000);
    /// armed panic: (kind, countdown). kind: 1 hash, 2 eq, 3 clone, 4 size. Panics when countdown hits 0.
    pub static ARMED: Cell<(u8, i64)> = Cell::new((0, -1));
    /// number of user callbacks of every kind since the last reset, in call order: (kind)
    pub static CALLS: RefCell<Vec<u8>> = RefCell::new(Vec::new());
    pub static RECORD_CALLS: Cell<bool> = Cell::new(false);
}

pub const CB_HASH: u8 = 1;
pub const CB_EQ: u8 = 2;
pub const CB_CLONE: u8 = 3;
pub const CB_SIZE: u8 = 4;
pub const CB_CLOSURE: u8 = 5;

/// Called at the start of every user callback. Panics if this is the armed call.
#[inline]
pub fn callback(kind: u8) {
    if RECORD_CALLS.with(|r| r.get()) {
        CALLS.with(|c| c.borrow_mut().push(kind));
    }
    let (k, n) = ARMED.with(|a| a.get());
    if k == kind {
        if n == 0 {
            ARMED.with(|a| a.set((0, -1)));
            panic!("armed callback panic kind={}", kind);
        }
        ARMED.with(|a| a.set((k, n - 1)));
    }
}

pub fn arm(kind: u8, nth: i64) { ARMED.with(|a| a.set((kind, nth))); }
pub fn disarm() { ARMED.with(|a| a.set((0, -1))); }

pub fn reset_counters() {
    HASHES.with(|c| c.set(0));
    EQS.with(|c| c.set(0));
    CLONES.with(|c| c.set(0));
    SIZES.with(|c| c.set(0));
    DROPS.with(|d| d.borrow_mut().clear());
    CLONE_LOG.with(|d| d.borrow_mut().clear());
    CALLS.with(|d| d.borrow_mut().clear());
}

pub fn take_drops() -> Vec<u64> { DROPS.with(|d| std::mem::take(&mut *d.borrow_mut())) }
pub fn take_clone_log() -> Vec<(u64, u64)> { CLONE_LOG.with(|d| std::mem::take(&mut *d.borrow_mut())) }
/// tokens of key objects are odd, tokens of value objects even (the model side tells them apart by that)
fn fresh_clone_tok(is_key: bool) -> u64 { NEXT_CLONE_TOK.with(|c| { let v = c.get() & !1; c.set(v + 2); if is_key { v | 1 } else { v } }) }

/// The borrowed form through which lookups go (a different type than the key).
#[derive(Debug)]
#[repr(transparent)]
pub struct KeyId(pub u32);
impl PartialEq for KeyId {
    fn eq(&self, o: &KeyId) -> bool {
        EQS.with(|h| h.set(h.get() + 1));
        callback(CB_EQ);
        self.0 == o.0
    }
}
impl Eq for KeyId {}

impl Hash for KeyId {
    fn hash<H: Hasher>(&self, s: &mut H) {
        HASHES.with(|h| h.set(h.get() + 1));
        callback(CB_HASH);
        s.write_u32(self.0)
    }
}

/// Instrumented key. `tok == 0` marks a probe object whose drop is not reported.
pub struct VKey { pub id: KeyId, pub tok: u64, pub heap: usize }

impl VKey {
    pub fn new(id: u32, tok: u64, heap: usize) -> VKey { VKey { id: KeyId(id), tok, heap } }
    pub fn probe(id: u32) -> VKey { VKey { id: KeyId(id), tok: 0, heap: 0 } }
}
impl std::fmt::Debug for VKey {
    fn fmt(&self, f: &mut std::fmt::Formatter<'_>) -> std::fmt::Result { write!(f, "K{}", self.id.0) }
}
impl PartialEq for VKey {
    fn eq(&self, o: &VKey) -> bool { self.id == o.id }
}
impl Eq for VKey {}
impl Hash for VKey {
    fn hash<H: Hasher>(&self, s: &mut H) { self.id.hash(s) }
}
impl Borrow<KeyId> for VKey { fn borrow(&self) -> &KeyId { &self.id } }
impl HeapSize for VKey {
    fn heap_size(&self) -> usize { SIZES.with(|h| h.set(h.get() + 1)); callback(CB_SIZE); self.heap }
}
impl Drop for VKey {
    fn drop(&mut self) { if self.tok != 0 { DROPS.with(|d| d.borrow_mut().push(self.tok)); } }
}
impl Clone for VKey {
    fn clone(&self) -> VKey {
        CLONES.with(|h| h.set(h.get() + 1));
        callback(CB_CLONE);
        let t = fresh_clone_tok(true);
        CLONE_LOG.with(|d| d.borrow_mut().push((self.tok, t)));
        VKey { id: KeyId(self.id.0), tok: t, heap: self.heap }
    }
}

/// Instrumented value.
pub struct VVal { pub tok: u64, pub tag: u64, pub heap: usize }
impl std::fmt::Debug for VVal {
    fn fmt(&self, f: &mut std::fmt::Formatter<'_>) -> std::fmt::Result { write!(f, "V{}", self.tag) }
}
impl HeapSize for VVal {
    fn heap_size(&self) -> usize { SIZES.with(|h| h.set(h.get() + 1)); callback(CB_SIZE); self.heap }
}
impl Drop for VVal {
    fn drop(&mut self) { if self.tok != 0 { DROPS.with(|d| d.borrow_mut().push(self.tok)); } }
}
impl Clone for VVal {
    fn clone(&self) -> VVal {
        CLONES.with(|h| h.set(h.get() + 1));
        callback(CB_CLONE);
        let t = fresh_clone_tok(false);
        CLONE_LOG.with(|d| d.borrow_mut().push((self.tok, t)));
        VVal { tok: t, tag: self.tag, heap: self.heap }
    }
}

/// The same key type without a Drop impl (needs_drop::<PKey>() is false). `tok == 0` marks a probe object whose drop is not reported.
pub struct PKey { pub id: KeyId, pub tok: u64, pub heap: usize }

impl PKey {
    pub fn new(id: u32, tok: u64, heap: usize) -> PKey { PKey { id: KeyId(id), tok, heap } }
    pub fn probe(id: u32) -> PKey { PKey { id: KeyId(id), tok: 0, heap: 0 } }
}
impl std::fmt::Debug for PKey {
    fn fmt(&self, f: &mut std::fmt::Formatter<'_>) -> std::fmt::Result { write!(f, "K{}", self.id.0) }
}
impl PartialEq for PKey {
    fn eq(&self, o: &PKey) -> bool { self.id == o.id }
}
impl Eq for PKey {}
impl Hash for PKey {
    fn hash<H: Hasher>(&self, s: &mut H) { self.id.hash(s) }
}
impl Borrow<KeyId> for PKey { fn borrow(&self) -> &KeyId { &self.id } }
impl HeapSize for PKey {
    fn heap_size(&self) -> usize { SIZES.with(|h| h.set(h.get() + 1)); callback(CB_SIZE); self.heap }
}
impl Clone for PKey {
    fn clone(&self) -> PKey {
        CLONES.with(|h| h.set(h.get() + 1));
        callback(CB_CLONE);
        let t = fresh_clone_tok(true);
        CLONE_LOG.with(|d| d.borrow_mut().push((self.tok, t)));
        PKey { id: KeyId(self.id.0), tok: t, heap: self.heap }
    }
}

/// The same value type without a Drop impl.
pub struct PVal { pub tok: u64, pub tag: u64, pub heap: usize }
impl std::fmt::Debug for PVal {
    fn fmt(&self, f: &mut std::fmt::Formatter<'_>) -> std::fmt::Result { write!(f, "V{}", self.tag) }
}
impl HeapSize for PVal {
    fn heap_size(&self) -> usize { SIZES.with(|h| h.set(h.get() + 1)); callback(CB_SIZE); self.heap }
}
impl Clone for PVal {
    fn clone(&self) -> PVal {
        CLONES.with(|h| h.set(h.get() + 1));
        callback(CB_CLONE);
        let t = fresh_clone_tok(false);
        CLONE_LOG.with(|d| d.borrow_mut().push((self.tok, t)));
        PVal { tok: t, tag: self.tag, heap: self.heap }
    }
}


impl VVal {
    pub fn mk(tok: u64, tag: u64, heap: usize) -> VVal { VVal { tok, tag, heap } }
    pub fn tok(&self) -> u64 { self.tok }
    pub fn tag(&self) -> u64 { self.tag }
    pub fn heapv(&self) -> usize { self.heap }
    pub fn set(&mut self, tag: u64, heap: usize) { self.tag = tag; self.heap = heap; }
}

impl PVal {
    pub fn mk(tok: u64, tag: u64, heap: usize) -> PVal { PVal { tok, tag, heap } }
    pub fn tok(&self) -> u64 { self.tok }
    pub fn tag(&self) -> u64 { self.tag }
    pub fn heapv(&self) -> usize { self.heap }
    pub fn set(&mut self, tag: u64, heap: usize) { self.tag = tag; self.heap = heap; }
}

thread_local! {
    /// side table of the narrow value type: (token, tag, heap) per handle
    pub static NVALS: RefCell<Vec<(u64, u64, usize)>> = RefCell::new(Vec::new());
}
/// A value type narrower than a pointer (size_of::<NVal>() == 4) whose size estimate depends on its state: a handle
/// into a side table that holds its token, tag and the heap size it reports.
pub struct NVal(pub u32);
impl NVal {
    pub fn mk(tok: u64, tag: u64, heap: usize) -> NVal { NVALS.with(|t| { let mut t = t.borrow_mut(); t.push((tok, tag, heap)); NVal((t.len() - 1) as u32) }) }
    fn row(&self) -> (u64, u64, usize) { NVALS.with(|t| t.borrow()[self.0 as usize]) }
    pub fn tok(&self) -> u64 { self.row().0 }
    pub fn tag(&self) -> u64 { self.row().1 }
    pub fn heapv(&self) -> usize { self.row().2 }
    pub fn set(&mut self, tag: u64, heap: usize) { NVALS.with(|t| { let mut t = t.borrow_mut(); let r = &mut t[self.0 as usize]; r.1 = tag; r.2 = heap; }) }
}
impl std::fmt::Debug for NVal {
    fn fmt(&self, f: &mut std::fmt::Formatter<'_>) -> std::fmt::Result { write!(f, "V{}", self.tag()) }
}
impl HeapSize for NVal {
    fn heap_size(&self) -> usize { SIZES.with(|h| h.set(h.get() + 1)); callback(CB_SIZE); self.heapv() }
}
impl Drop for NVal {
    fn drop(&mut self) { let t = self.tok(); if t != 0 { DROPS.with(|d| d.borrow_mut().push(t)); } }
}
impl Clone for NVal {
    fn clone(&self) -> NVal {
        CLONES.with(|h| h.set(h.get() + 1));
        callback(CB_CLONE);
        let t = fresh_clone_tok(false);
        CLONE_LOG.with(|d| d.borrow_mut().push((self.tok(), t)));
        NVal::mk(t, self.tag(), self.heapv())
    }
}

/// Hashers: 0 identity, 1 constant (every key collides), 2 two low bits, 3 multiplicative, 4 SipHash (std), 5 multiplicative with a
/// specialised hash_one that disagrees with the streaming hash.
#[derive(Clone, Debug)]
pub struct BH(pub u8);
pub struct H(u8, u64, std::collections::hash_map::DefaultHasher);
impl Hasher for H {
    fn finish(&self) -> u64 {
        match self.0 {
            0 => self.1,
            1 => 0,
            2 => self.1 & 3,
            3 | 5 => self.1.wrapping_mul(0x9E3779B97F4A7C15),
            _ => self.2.finish(),
        }
    }
    fn write(&mut self, b: &[u8]) { for x in b { self.1 = (self.1 << 8) | *x as u64; } self.2.write(b); }
    fn write_u32(&mut self, x: u32) { self.1 = x as u64; self.2.write_u32(x); }
}
impl BuildHasher for BH {
    type Hasher = H;
    #[allow(deprecated)]
    fn build_hasher(&self) -> H { H(self.0, 0, std::collections::hash_map::DefaultHasher::new()) }
    /// kind 5: a builder whose one-shot `hash_one` is specialised and does NOT agree with hashing through `build_hasher`
    /// (as ahash's RandomState with its `specialize` feature): a table must use one of the two ways consistently
    fn hash_one<T: Hash>(&self, x: T) -> u64 where Self: Sized {
        let mut h = self.build_hasher(); x.hash(&mut h); let v = h.finish();
        if self.0 == 5 { !v } else { v }
    }
}

/// xorshift64* PRNG; every random choice of the harness derives from one state.
pub struct Rng(pub u64);
impl Rng {
    pub fn seeded(seed: u64, stream: u64) -> Rng {
        let mut z = seed.wrapping_mul(0x9E3779B97F4A7C15).wrapping_add(stream.wrapping_mul(0xBF58476D1CE4E5B9)).wrapping_add(0x94D049BB133111EB);
        z = (z ^ (z >> 30)).wrapping_mul(0xBF58476D1CE4E5B9);
        z = (z ^ (z >> 27)).wrapping_mul(0x94D049BB133111EB);
        z ^= z >> 31;
        Rng(z | 1)
    }
    pub fn next(&mut self) -> u64 {
        self.0 ^= self.0 >> 12; self.0 ^= self.0 << 25; self.0 ^= self.0 >> 27;
        self.0.wrapping_mul(0x2545F4914F6CDD1D)
    }
    pub fn below(&mut self, n: u64) -> u64 { if n == 0 { 0 } else { self.next() % n } }
    pub fn pick<T: Copy>(&mut self, xs: &[T]) -> T { xs[self.below(xs.len() as u64) as usize] }
}

/// Allocation-failure injection: while armed, any allocation of at least the given size fails.
pub mod failalloc {
    use std::alloc::{GlobalAlloc, Layout, System};
    use std::sync::atomic::{AtomicUsize, Ordering};
    pub static FAIL_AT_LEAST: AtomicUsize = AtomicUsize::new(usize::MAX);
    pub static LIVE_BYTES: AtomicUsize = AtomicUsize::new(0);
    pub struct FailAlloc;
    unsafe impl GlobalAlloc for FailAlloc {
        unsafe fn alloc(&self, l: Layout) -> *mut u8 {
            if l.size() >= FAIL_AT_LEAST.load(Ordering::Relaxed) { return std::ptr::null_mut(); }
            let p = System.alloc(l);
            if !p.is_null() { LIVE_BYTES.fetch_add(l.size(), Ordering::Relaxed); }
            p
        }
        unsafe fn dealloc(&self, p: *mut u8, l: Layout) {
            LIVE_BYTES.fetch_sub(l.size(), Ordering::Relaxed);
            System.dealloc(p, l)
        }
        unsafe fn realloc(&self, p: *mut u8, l: Layout, new_size: usize) -> *mut u8 {
            if new_size >= FAIL_AT_LEAST.load(Ordering::Relaxed) { return std::ptr::null_mut(); }
            let q = System.realloc(p, l, new_size);
            if !q.is_null() {
                LIVE_BYTES.fetch_sub(l.size(), Ordering::Relaxed);
                LIVE_BYTES.fetch_add(new_size, Ordering::Relaxed);
            }
            q
        }
    }
    pub fn arm(at_least: usize) { FAIL_AT_LEAST.store(at_least, Ordering::Relaxed); }
    pub fn disarm() { FAIL_AT_LEAST.store(usize::MAX, Ordering::Relaxed); }
    pub fn live() -> usize { LIVE_BYTES.load(Ordering::Relaxed) }
}
