//! cache_trace: runs operation traces on the real LruCache and prints, per step, the resolved
//! operation (OP) and a canonical observation (OB) that includes hidden state read through the
//! `verif-hooks` snapshot.
//!
//!   cache_trace gen <seed> <ntraces> <steps> [profile]   generate structured random traces and run them
//!   cache_trace replay <file>                            re-execute the CFG/OP lines of a stream file
//!
//! Stream format (one record per line):
//!   CFG <slot> <max> <cap> <hasher> <E> <VS> <universe>
//!   OP <slot> <name> <args...>
//!   OB <res>|<ents>|<cur>|<max>|<cap>|<nb>|<dropped>|<hashes>|<visits>|<struct>|<flags>|<calls>
//!   END
use harness::trace::*;
use harness::*;
use std::io::Write as _;

#[global_allocator]
static ALLOC: failalloc::FailAlloc = failalloc::FailAlloc;

fn main() {
    std::panic::set_hook(Box::new(|_| {}));
    let args: Vec<String> = std::env::args().collect();
    let stdout = std::io::stdout();
    let mut out = std::io::BufWriter::with_capacity(1 << 20, stdout.lock());
    match args.get(1).map(|s| s.as_str()) {
        Some("gen") => {
            let seed: u64 = args[2].parse().unwrap();
            let n: u64 = args[3].parse().unwrap();
            let steps: usize = args[4].parse().unwrap();
            let profile = args.get(5).map(|s| s.as_str()).unwrap_or("mix");
            for t in 0..n { gen_trace(seed, t, steps, profile, &mut out); }
        }
        Some("replay") => replay(&args[2], &mut out),
        Some("exhaust") => {
            // cache_trace exhaust <depth> <alphabet 0|1> <hasher>
            let depth: usize = args[2].parse().unwrap();
            let alphabet: u8 = args[3].parse().unwrap();
            let hk: u8 = args.get(4).and_then(|s| s.parse().ok()).unwrap_or(0);
            let n = exhaust(depth, alphabet, hk, &mut out);
            eprintln!("exhaust: {} sequences", n);
        }
        _ => { eprintln!("usage: cache_trace gen <seed> <ntraces> <steps> [profile] | replay <file>"); std::process::exit(2); }
    }
    out.flush().unwrap();
}
