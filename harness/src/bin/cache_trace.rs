//! cache_trace: trace generator / replayer / small-scope enumerator for the real LruCache.
//!   cache_trace gen <seed> <ntraces> <steps> [profile] [types]   types: dd (default) | pd | dp | df | dn
//!   cache_trace replay <file>        (the instantiation is read from the file's first CFG line)
//!   cache_trace exhaust <depth> <alphabet 0|1> <hasher>
use harness::*;

#[global_allocator]
static ALLOC: failalloc::FailAlloc = failalloc::FailAlloc;

macro_rules! run_with {
    ($m:ident, $args:expr, $out:expr) => {{
        use harness::$m as tm;
        let args: &Vec<String> = $args;
        let out = $out;
        match args.get(1).map(|s| s.as_str()) {
            Some("gen") => {
                let seed: u64 = args[2].parse().unwrap();
                let n: u64 = args[3].parse().unwrap();
                let steps: usize = args[4].parse().unwrap();
                let profile = args.get(5).map(|s| s.as_str()).unwrap_or("mix");
                for t in 0..n { tm::gen_trace(seed, t, steps, profile, out); }
            }
            Some("replay") => tm::replay(&args[2], out),
            Some("exhaust") => {
                let depth: usize = args[2].parse().unwrap();
                let alphabet: u8 = args[3].parse().unwrap();
                let hk: u8 = args.get(4).and_then(|s| s.parse().ok()).unwrap_or(0);
                let n = tm::exhaust(depth, alphabet, hk, out);
                eprintln!("exhaust: {} sequences", n);
            }
            _ => { eprintln!("usage: cache_trace gen <seed> <ntraces> <steps> [profile] [types] | replay <file> | exhaust <depth> <alphabet> <hasher>"); std::process::exit(2); }
        }
    }};
}

fn main() {
    std::panic::set_hook(Box::new(|_| {}));
    let args: Vec<String> = std::env::args().collect();
    let stdout = std::io::stdout();
    let mut out = std::io::BufWriter::with_capacity(1 << 20, stdout.lock());
    let ty: String = match args.get(1).map(|s| s.as_str()) {
        Some("gen") => args.get(6).cloned().unwrap_or_else(|| "dd".into()),
        Some("replay") => std::fs::read_to_string(&args[2]).ok().and_then(|s| s.lines().find(|l| l.starts_with("CFG "))
            .and_then(|l| l.split_whitespace().nth(8).map(|x| x.to_string()))).unwrap_or_else(|| "dd".into()),
        _ => "dd".into(),
    };
    match ty.as_str() {
        "pd" => run_with!(trace_pd, &args, &mut out),
        "dp" => run_with!(trace_dp, &args, &mut out),
        "df" => run_with!(trace_df, &args, &mut out),
        "dn" => run_with!(trace_dn, &args, &mut out),
        _ => run_with!(trace, &args, &mut out),
    }
    use std::io::Write as _;
    out.flush().unwrap();
}
