//! panic_trace: systematic panic injection (C16). For each generated cache state and each candidate
//! operation, a dry run records every callback into user code the operation makes (Hash, Eq, Clone,
//! size estimation, closure / predicate); then, for every such call, the state is rebuilt from scratch,
//! that very call panics, the unwind is caught, and the trace goes on with further use and the drop of
//! the cache. The output is an ordinary trace stream (see trace.rs) whose injected operation carries the
//! suffix `@panic=<kind>:<nth>`; `cache_trace replay` re-executes it.
//!
//!   panic_trace <seed> <nstates> <prefix_steps> [max_points_per_op]
use harness::*;
use std::io::Write as _;

#[global_allocator]
static ALLOC: failalloc::FailAlloc = failalloc::FailAlloc;


// the whole generator, instantiated for a module of harness (one per combination of key / value types)
macro_rules! panic_gen {
    ($name:ident, $m:ident) => {
        mod $name {
            use harness::$m::*;
            use harness::*;
            use std::io::Write as _;
            fn rebuild(cfg: (usize, usize, u8), universe: u32, prefix: &[(usize, Op)], out: &mut impl std::io::Write) -> World {
                let mut w = World { slots: vec![None, None, None], universe, cfg, log: Vec::new() };
                new_cache(&mut w, 0, cfg.0, cfg.1, cfg.2, out);
                for (slot, op) in prefix {
                    if w.slots[*slot].is_none() && !matches!(op, Op::Clone(_)) { continue; }
                    do_step(&mut w, *slot, op, out);
                }
                w
            }

            fn candidates(w: &World, rng: &mut Rng, tok0: u64) -> Vec<(usize, Op)> {
                let c = match w.slots[0].as_ref() { Some(c) => c, None => return vec![] };
                let e0 = lru_mem::entry_size(&K::probe(0), &V::mk(0, 0, 0));
                let keys: Vec<u32> = c.keys().map(|k| k.id.0).collect();
                let present = |rng: &mut Rng| if keys.is_empty() { 0 } else { keys[rng.below(keys.len() as u64) as usize] };
                let absent = (0..w.universe + 1).find(|i| !keys.contains(i)).unwrap_or(w.universe);
                let free = c.max_size().saturating_sub(c.current_size());
                let maxs = c.max_size();
                let mut t = tok0;
                let mut nt = || { t += 1; t };
                let mut v: Vec<(usize, Op)> = Vec::new();
                let lru = keys.first().copied().unwrap_or(0);
                let mru = keys.last().copied().unwrap_or(0);
                // insertions: fresh key that fits, fresh key that needs eviction, replacement, too large
                v.push((0, Op::Insert(absent, nt(), 0, nt(), 7, 0)));
                if maxs >= e0 && maxs < 1 << 40 { v.push((0, Op::Insert(absent, nt(), 0, nt(), 7, (maxs - e0).min(free.saturating_add(e0))))); }
                v.push((0, Op::Insert(present(rng), nt(), 5, nt(), 8, 17)));
                if maxs < 1 << 40 { v.push((0, Op::Insert(absent, nt(), 0, nt(), 9, maxs.saturating_sub(e0) + 1))); }
                v.push((0, Op::TryInsert(absent, nt(), 0, nt(), 7, 1)));
                v.push((0, Op::TryInsert(present(rng), nt(), 0, nt(), 7, 1)));
                v.push((0, Op::Get(present(rng)))); v.push((0, Op::Get(absent)));
                v.push((0, Op::Peek(lru))); v.push((0, Op::Contains(mru))); v.push((0, Op::Touch(lru)));
                v.push((0, Op::Remove(present(rng)))); v.push((0, Op::RemoveEntry(mru)));
                v.push((0, Op::RemoveLru)); v.push((0, Op::RemoveMru));
                // mutate: shrink, grow that fits, grow that needs eviction, grow beyond the limit, absent key
                let cur_v = |id: u32| c.peek(&KeyId(id)).map(|x| x.heapv()).unwrap_or(0);
                v.push((0, Op::Mutate(lru, nt(), cur_v(lru).saturating_sub(3))));
                v.push((0, Op::Mutate(mru, nt(), cur_v(mru) + 1)));
                if free < 1 << 40 { v.push((0, Op::Mutate(lru, nt(), cur_v(lru) + free + 1 + e0 / 2))); }
                if maxs < 1 << 40 { v.push((0, Op::Mutate(present(rng), nt(), maxs))); }
                v.push((0, Op::Mutate(absent, nt(), 5)));
                v.push((0, Op::SetMax(c.current_size() / 2)));
                v.push((0, Op::Retain(0x5555_5555_5555_5555))); v.push((0, Op::Retain(rng.next())));
                v.push((0, Op::Reserve(c.capacity() + 1))); v.push((0, Op::TryReserve(c.capacity() + 5, false)));
                v.push((0, Op::ShrinkToFit)); v.push((0, Op::ShrinkTo(1)));
                v.push((0, Op::Clone(1)));
                v
            }

            pub fn run(args: Vec<String>) {
                let seed: u64 = args[1].parse().unwrap();
                let nstates: u64 = args[2].parse().unwrap();
                let steps: usize = args[3].parse().unwrap();
                let max_pts: usize = args.get(4).and_then(|s| s.parse().ok()).unwrap_or(24);
                let stdout = std::io::stdout();
                let mut out = std::io::BufWriter::with_capacity(1 << 20, stdout.lock());
                let mut sink = std::io::sink();
                for st in 0..nstates {
                    // the state: a generated prefix, replayed from scratch for every injection
                    let profile = if st % 5 == 4 { "big" } else { "mix" };
                    let (w0, alive) = gen_world(seed, st, if profile == "big" { steps * 6 } else { steps }, profile, &mut sink);
                    let prefix: Vec<(usize, Op)> = w0.log.clone();
                    let (cfg, universe) = (w0.cfg, w0.universe);
                    if !alive || w0.slots[0].is_none() { for s in w0.slots { std::mem::forget(s); } continue; }
                    // a clone target must be free
                    let prefix: Vec<(usize, Op)> = { let mut p = prefix; if w0.slots[1].is_some() { p.push((1, Op::DropC)); } p };
                    let mut rng = Rng::seeded(seed ^ 0xC16, st);
                    let cands = candidates(&w0, &mut rng, st * 1_000_000 + 900_000);
                    for s in w0.slots { std::mem::forget(s); }
                    for (ci, (slot, op)) in cands.iter().enumerate() {
                        // dry run: which callbacks does the operation make, in order?
                        let mut w = rebuild(cfg, universe, &prefix, &mut sink);
                        RECORD_CALLS.with(|r| r.set(true));
                        let so = exec(&mut w, *slot, op);
                        RECORD_CALLS.with(|r| r.set(false));
                        let calls: Vec<u8> = CALLS.with(|c| c.borrow().clone());
                        for s in w.slots { std::mem::forget(s); }
                        if so.res == "panic" { continue; }
                        // the uninjected run, on record: the model must agree with it before injected runs are compared with the model's panic points
                        {
                            writeln!(out, "# DRY state={} candidate={}", st, ci).unwrap();
                            let mut w = rebuild(cfg, universe, &prefix, &mut out);
                            do_step(&mut w, *slot, op, &mut out);
                            finish(&mut w, &mut out, false);
                            writeln!(out, "# INJ").unwrap();
                        }
                        // which call indices to inject at: all when few, else the first ones, the last ones and a sample
                        let idx: Vec<usize> = if calls.len() <= max_pts { (0..calls.len()).collect() } else {
                            let mut v: Vec<usize> = (0..max_pts / 2).collect();
                            v.extend(calls.len() - max_pts / 4..calls.len());
                            for _ in 0..max_pts / 4 { v.push(rng.below(calls.len() as u64) as usize); }
                            v.sort(); v.dedup(); v };
                        for j in idx {
                            let kind = calls[j];
                            let nth = calls[..j].iter().filter(|k| **k == kind).count() as i64;
                            let mut w = rebuild(cfg, universe, &prefix, &mut out);
                            do_step_inject(&mut w, *slot, op, Some((kind, nth)), &mut out);
                            // further use, then drop
                            let mut r2 = Rng::seeded(seed ^ (ci as u64) << 8 ^ j as u64, st);
                            let t0 = st * 1_000_000 + 950_000 + (j as u64) * 10;
                            let live: Vec<usize> = (0..3).filter(|s| w.slots[*s].is_some()).collect();
                            for (n, s) in live.iter().enumerate() {
                                let id = r2.below(universe as u64) as u32;
                                do_step(&mut w, *s, &Op::Get(id), &mut out);
                                do_step(&mut w, *s, &Op::Insert(id, t0 + 2 * n as u64 + 1, 0, t0 + 2 * n as u64 + 2, 3, 1), &mut out);
                                do_step(&mut w, *s, &Op::Iter(0, "FBFB".into()), &mut out);
                                do_step(&mut w, *s, &Op::RemoveLru, &mut out);
                                // force the table to be rebuilt after the panic (twice), then look everything up again
                                let cap = w.slots[*s].as_ref().map(|c| c.capacity()).unwrap_or(0);
                                do_step(&mut w, *s, &Op::Reserve(cap + 1), &mut out);
                                do_step(&mut w, *s, &Op::Get(id), &mut out);
                                do_step(&mut w, *s, &Op::ShrinkToFit, &mut out);
                                do_step(&mut w, *s, &Op::Iter(0, "BFBF".into()), &mut out);
                            }
                            finish(&mut w, &mut out, false);
                        }
                    }
                }
                out.flush().unwrap();
            }

        }
    };
}
panic_gen!(gen_dd, trace);
panic_gen!(gen_pd, trace_pd);
panic_gen!(gen_dp, trace_dp);
panic_gen!(gen_dn, trace_dn);

/// panic_trace <seed> <nstates> <prefix_steps> [max_points_per_op] [types: dd | pd | dp | dn]
fn main() {
    std::panic::set_hook(Box::new(|_| {}));
    let args: Vec<String> = std::env::args().collect();
    match args.get(5).map(|s| s.as_str()).unwrap_or("dd") {
        "pd" => gen_pd::run(args),
        "dp" => gen_dp::run(args),
        "dn" => gen_dn::run(args),
        _ => gen_dd::run(args),
    }
}
