//! directed: scripted scenarios for the defects found while modelling (DESIGN.md section 8).
//! Each prints `DIRECTED <name> ok|FAIL <detail>`. `directed <name>` runs one (in this process).
use harness::*;
use lru_mem::{HeapSize, LruCache};
use std::path::PathBuf;

fn c08_zero_len_arrays() -> Result<(), String> {
    // one million empty arrays: SizedArrayFlatIterator::next must not recurse once per empty section
    let v: Vec<[String; 0]> = vec![[]; 1_000_000];
    let h = v.heap_size();
    if h == 0 { Ok(()) } else { Err(format!("heap_size = {}", h)) }
}

fn c09_pathbuf_capacity() -> Result<(), String> {
    let mut p = PathBuf::with_capacity(100);
    p.push("a");
    let cap = p.capacity();
    let h = p.heap_size();
    if h == cap { Ok(()) } else { Err(format!("PathBuf with capacity {} reports heap_size {}", cap, h)) }
}

fn c13_shrink_raises() -> Result<(), String> {
    let mut c: LruCache<VKey, VVal, BH> = LruCache::with_capacity_and_hasher(usize::MAX, 28, BH(1));
    for i in 0..20u32 { c.insert(VKey::new(i, 0, 0), VVal { tok: 0, tag: 0, heap: 0 }).ok(); }
    c.remove(&KeyId(10));
    let before = c.capacity();
    c.shrink_to(26);
    let after = c.capacity();
    if after <= before { Ok(()) } else { Err(format!("shrink_to(26) raised capacity {} -> {}", before, after)) }
}

fn c16_hash_panic_in_realloc() -> Result<(), String> {
    let mut c: LruCache<VKey, VVal, BH> = LruCache::with_capacity_and_hasher(usize::MAX, 3, BH(0));
    for i in 0..3u32 { c.insert(VKey::new(10 + i, 0, 0), VVal { tok: 0, tag: 0, heap: 0 }).ok(); }
    // 4th insert grows the table; hash call #0 is the new key, #1.. are the re-hashes
    arm(CB_HASH, 2);
    let r = std::panic::catch_unwind(std::panic::AssertUnwindSafe(|| { c.insert(VKey::new(20, 0, 0), VVal { tok: 0, tag: 0, heap: 0 }).ok(); }));
    disarm();
    if r.is_ok() { return Err("no panic was injected".into()); }
    let g = c.verif_snapshot(|_| {});
    if g.dangling.is_some() || g.overlong || g.walked != g.len {
        return Err(format!("after the panic: len={} walked={} dangling={:?}", g.len, g.walked, g.dangling));
    }
    Ok(())
}

/// C04 with an unsized borrowed key form: a lookup by a `&str` that ALIASES the first bytes of a stored `String` key (a
/// prefix slice of the key's own buffer, obtained through peek_lru / iter) is a lookup of a different key. With hashers
/// that make the prefix collide with the full key, only the equality test tells them apart.
fn c04_alias_prefix() -> Result<(), String> {
    for hk in [1u8, 2, 0, 4] {
        let mut c: LruCache<String, u64, BH> = LruCache::with_capacity_and_hasher(usize::MAX, 8, BH(hk));
        for (i, k) in ["hello world", "hello", "abcabc", "zz"].iter().enumerate() { c.insert(k.to_string(), i as u64).map_err(|_| "insert failed".to_string())?; }
        c.remove("hello");
        let stored: Vec<&String> = c.keys().collect();
        for k in stored {
            for n in 0..k.len() {
                let prefix: &str = &k[..n];
                let expect = ["hello world", "abcabc", "zz"].iter().any(|s| *s == prefix);
                if c.contains(prefix) != expect { return Err(format!("hasher {}: contains({:?}) (a prefix slice of the stored key {:?}) = {}", hk, prefix, k, !expect)); }
                if c.peek(prefix).is_some() != expect { return Err(format!("hasher {}: peek({:?}) aliasing {:?} found an entry", hk, prefix, k)); }
                if c.peek_entry(prefix).is_some() != expect { return Err(format!("hasher {}: peek_entry({:?}) aliasing {:?} found an entry", hk, prefix, k)); }
            }
        }
        // the same through the mutating lookups, with an equal-content but separately allocated prefix and with the alias
        let owned_prefix = String::from("hello wor");
        if c.get(owned_prefix.as_str()).is_some() || c.remove(owned_prefix.as_str()).is_some() { return Err(format!("hasher {}: a proper prefix of a stored key was found", hk)); }
        if c.len() != 3 { return Err(format!("hasher {}: len {} after failed lookups", hk, c.len())); }
        // slices of one buffer holding two keys back to back: "abcabc"[..3] == "abcabc"[3..] in content but not in address
        c.insert("abc".to_string(), 9).map_err(|_| "insert failed".to_string())?;
        let k6 = c.keys().find(|k| k.as_str() == "abcabc").unwrap().clone();
        if c.peek(&k6[3..]) != Some(&9) || c.peek(&k6[..3]) != Some(&9) { return Err(format!("hasher {}: equal content at a different address was not found", hk)); }
    }
    Ok(())
}

/// C09 for Mutex / RwLock under contention: the estimate is taken while another thread holds the lock for a moment; it must
/// be the exact figure (the estimator waits for the lock), not a fallback value.
fn c09_contended_lock() -> Result<(), String> {
    use std::sync::{Arc, Mutex, RwLock, mpsc};
    let m = Arc::new(Mutex::new(String::with_capacity(100)));
    let expect = m.lock().unwrap().capacity();
    let (tx, rx) = mpsc::channel();
    let m2 = m.clone();
    let h = std::thread::spawn(move || { let g = m2.lock().unwrap(); tx.send(()).unwrap(); std::thread::sleep(std::time::Duration::from_millis(120)); drop(g); });
    rx.recv().unwrap();
    let got = m.heap_size();
    h.join().unwrap();
    if got != expect { return Err(format!("Mutex<String> held by another thread: heap_size {} instead of {}", got, expect)); }
    let l = Arc::new(RwLock::new(vec![0u64; 17]));
    let expect = l.read().unwrap().capacity() * 8;
    let (tx, rx) = mpsc::channel();
    let l2 = l.clone();
    let h = std::thread::spawn(move || { let g = l2.write().unwrap(); tx.send(()).unwrap(); std::thread::sleep(std::time::Duration::from_millis(120)); drop(g); });
    rx.recv().unwrap();
    let got = l.heap_size();
    h.join().unwrap();
    if got != expect { return Err(format!("RwLock<Vec<u64>> write-locked by another thread: heap_size {} instead of {}", got, expect)); }
    Ok(())
}

fn main() {
    std::panic::set_hook(Box::new(|_| {}));
    let which = std::env::args().nth(1);
    let all: Vec<(&str, fn() -> Result<(), String>)> = vec![
        ("c08_zero_len_arrays", c08_zero_len_arrays), ("c09_pathbuf_capacity", c09_pathbuf_capacity),
        ("c13_shrink_raises", c13_shrink_raises), ("c16_hash_panic_in_realloc", c16_hash_panic_in_realloc),
        ("c04_alias_prefix", c04_alias_prefix), ("c09_contended_lock", c09_contended_lock)];
    for (name, f) in all {
        if let Some(w) = &which { if w != name { continue; } }
        match f() { Ok(()) => println!("DIRECTED {} ok", name), Err(e) => println!("DIRECTED {} FAIL {}", name, e) }
    }
}
