//! memsize_probe: runs the REAL HeapSize / ValueSize / MemSize impls of /repo over many concrete nested
//! types and reports, per probed value, the Layer M model terms (`ty`, `value` in Coq syntax, see
//! coq/M/MemModel.v), `size_of` of every type involved, the real heap_size / mem_size / value_size, the
//! four bulk helpers over several iterator shapes, and the bytes a counting global allocator attributes
//! to the value.  tools/memsize_check.py evaluates the Coq model on the same terms and compares.
//!
//!   memsize_probe gen <seed> <reps> [only-substring]   tab-separated records on stdout
//!   memsize_probe big <case> <count>                   one large-count case on a 256 KiB stack
//!   memsize_probe biglist                              names of the large-count cases
//!
//! Values are built by random scripts of with_capacity / push / extend / reserve / shrink_to / truncate
//! (and insert / remove for tables), so that len < cap occurs at every nesting level.  Everything derives
//! from the seed: the same (seed, type) always yields the same values.
use harness::failalloc::{live, FailAlloc};
use harness::Rng;
use lru_mem::{HeapSize, MemSize, ValueSize};
use std::cell::Cell;
use std::collections::hash_map::{DefaultHasher, RandomState};
use std::collections::{BTreeMap, BinaryHeap, HashMap, HashSet};
use std::ffi::{CStr, CString, OsStr, OsString};
use std::hash::{BuildHasher, Hash};
use std::marker::{PhantomData, PhantomPinned};
use std::num::Wrapping;
use std::ops::{Range, RangeFrom, RangeFull, RangeInclusive, RangeTo, RangeToInclusive};
use std::path::{Path, PathBuf};
use std::sync::{Mutex, RwLock};

#[global_allocator]
static ALLOC: FailAlloc = FailAlloc;

thread_local! {
    /// bytes allocated for the referents of `&T` / `&mut T` values (not owned by the probed value)
    static REF_EXTRA: Cell<usize> = Cell::new(0);
}

// ------------------------------------------------------------------------------------------------
// reflection into the model's vocabulary
// ------------------------------------------------------------------------------------------------
pub struct Sizes(BTreeMap<String, usize>);
impl Sizes {
    /// records size_of for a model type; true when the type was not seen before (then recurse)
    fn put(&mut self, ty: String, size: usize) -> bool {
        match self.0.get(&ty) {
            Some(&old) => { assert_eq!(old, size, "two Rust types with different size_of map to {}", ty); false }
            None => { self.0.insert(ty, size); true }
        }
    }
}

pub trait Reflect: MemSize {
    fn ty() -> String;
    fn sizes(m: &mut Sizes);
    fn val(&self) -> String;
    /// hash tables only: capacity x entry size + the REAL heap sizes of the elements (C09's lower bound)
    fn table_lower(&self) -> Option<usize> { None }
}
/// random construction (Sized types)
pub trait Gen: Sized { fn gen(r: &mut Rng, d: u32) -> Self; }
/// random construction behind a Box (also for unsized types)
pub trait GenBox { fn gen_box(r: &mut Rng, d: u32) -> Box<Self>; }
impl<T: Gen> GenBox for T { fn gen_box(r: &mut Rng, d: u32) -> Box<T> { Box::new(T::gen(r, d)) } }

fn list<I: Iterator<Item = String>>(it: I) -> String {
    let v: Vec<String> = it.collect();
    format!("[{}]", v.join("; "))
}
/// how many elements a container may get at nesting depth d
fn maxn(d: u32) -> u64 { match d { 0 => 6, 1 => 4, 2 => 3, 3 => 2, _ => 1 } }

// ---- leaves (basic_mem_size!) -------------------------------------------------------------------
macro_rules! leaf {
    ($id:expr, $t:ty, |$r:ident| $e:expr) => {
        impl Reflect for $t {
            fn ty() -> String { format!("(TLeaf {})", $id) }
            fn sizes(m: &mut Sizes) { m.put(Self::ty(), std::mem::size_of::<$t>()); }
            fn val(&self) -> String { "VUnit".into() }
        }
        impl Gen for $t { fn gen($r: &mut Rng, _d: u32) -> $t { $e } }
    };
}
leaf!(1, (), |_r| ());
leaf!(2, u8, |r| r.next() as u8);
leaf!(3, u16, |r| r.next() as u16);
leaf!(4, u32, |r| r.next() as u32);
leaf!(5, u64, |r| r.next());
leaf!(6, u128, |r| (r.next() as u128) << 64 | r.next() as u128);
leaf!(7, usize, |r| r.next() as usize);
leaf!(8, i8, |r| r.next() as i8);
leaf!(9, i16, |r| r.next() as i16);
leaf!(10, i32, |r| r.next() as i32);
leaf!(11, i64, |r| r.next() as i64);
leaf!(12, i128, |r| r.next() as i128);
leaf!(13, isize, |r| r.next() as isize);
leaf!(14, f32, |r| r.next() as f32);
leaf!(15, f64, |r| r.next() as f64);
leaf!(16, bool, |r| r.next() & 1 == 1);
leaf!(17, char, |r| (b'a' + (r.below(26) as u8)) as char);
leaf!(18, std::num::NonZeroU8, |r| std::num::NonZeroU8::new(r.next() as u8 | 1).unwrap());
leaf!(19, std::num::NonZeroU16, |r| std::num::NonZeroU16::new(r.next() as u16 | 1).unwrap());
leaf!(20, std::num::NonZeroU32, |r| std::num::NonZeroU32::new(r.next() as u32 | 1).unwrap());
leaf!(21, std::num::NonZeroU64, |r| std::num::NonZeroU64::new(r.next() | 1).unwrap());
leaf!(22, std::num::NonZeroU128, |r| std::num::NonZeroU128::new(r.next() as u128 | 1).unwrap());
leaf!(23, std::num::NonZeroUsize, |r| std::num::NonZeroUsize::new(r.next() as usize | 1).unwrap());
leaf!(24, std::num::NonZeroI8, |r| std::num::NonZeroI8::new(r.next() as i8 | 1).unwrap());
leaf!(25, std::num::NonZeroI16, |r| std::num::NonZeroI16::new(r.next() as i16 | 1).unwrap());
leaf!(26, std::num::NonZeroI32, |r| std::num::NonZeroI32::new(r.next() as i32 | 1).unwrap());
leaf!(27, std::num::NonZeroI64, |r| std::num::NonZeroI64::new(r.next() as i64 | 1).unwrap());
leaf!(28, std::num::NonZeroI128, |r| std::num::NonZeroI128::new(r.next() as i128 | 1).unwrap());
leaf!(29, std::num::NonZeroIsize, |r| std::num::NonZeroIsize::new(r.next() as isize | 1).unwrap());
leaf!(30, std::cmp::Ordering, |r| if r.next() & 1 == 1 { std::cmp::Ordering::Less } else { std::cmp::Ordering::Greater });
leaf!(31, std::time::Duration, |r| std::time::Duration::from_nanos(r.next()));
leaf!(32, std::time::Instant, |_r| std::time::Instant::now());
leaf!(33, std::fmt::Alignment, |_r| std::fmt::Alignment::Center);
leaf!(34, PhantomPinned, |_r| PhantomPinned);
leaf!(35, std::net::Shutdown, |_r| std::net::Shutdown::Both);
leaf!(36, RangeFull, |_r| ..);
leaf!(37, std::thread::ThreadId, |_r| std::thread::current().id());
leaf!(38, std::net::Ipv4Addr, |r| std::net::Ipv4Addr::from(r.next() as u32));
leaf!(39, std::net::Ipv6Addr, |r| std::net::Ipv6Addr::from((r.next() as u128) << 64 | r.next() as u128));
leaf!(40, std::net::IpAddr, |r| std::net::IpAddr::V4(std::net::Ipv4Addr::from(r.next() as u32)));
leaf!(41, std::net::SocketAddrV4, |r| std::net::SocketAddrV4::new(std::net::Ipv4Addr::from(r.next() as u32), 80));
leaf!(42, std::net::SocketAddrV6, |r| std::net::SocketAddrV6::new(std::net::Ipv6Addr::from(r.next() as u128), 80, 0, 0));
leaf!(43, std::net::SocketAddr, |r| std::net::SocketAddr::V4(std::net::SocketAddrV4::new(std::net::Ipv4Addr::from(r.next() as u32), 80)));
leaf!(44, RandomState, |_r| RandomState::new());

// ---- unsized byte-like types ---------------------------------------------------------------------
fn ascii(r: &mut Rng, n: u64) -> String { (0..n).map(|_| (b'a' + r.below(26) as u8) as char).collect() }

impl Reflect for str {
    fn ty() -> String { "TStr".into() }
    fn sizes(_m: &mut Sizes) {}
    fn val(&self) -> String { format!("(VBytes {})", self.len()) }
}
impl GenBox for str { fn gen_box(r: &mut Rng, _d: u32) -> Box<str> { let n = r.below(12); ascii(r, n).into_boxed_str() } }
impl Reflect for CStr {
    fn ty() -> String { "TCStr".into() }
    fn sizes(_m: &mut Sizes) {}
    fn val(&self) -> String { format!("(VBytes {})", self.to_bytes_with_nul().len()) }
}
impl GenBox for CStr { fn gen_box(r: &mut Rng, d: u32) -> Box<CStr> { CString::gen(r, d).into_boxed_c_str() } }
impl Reflect for OsStr {
    fn ty() -> String { "TOsStr".into() }
    fn sizes(_m: &mut Sizes) {}
    fn val(&self) -> String { format!("(VBytes {})", self.len()) }
}
impl GenBox for OsStr { fn gen_box(r: &mut Rng, d: u32) -> Box<OsStr> { OsString::gen(r, d).into_boxed_os_str() } }
impl Reflect for Path {
    fn ty() -> String { "TPath".into() }
    fn sizes(_m: &mut Sizes) {}
    fn val(&self) -> String { format!("(VBytes {})", self.as_os_str().len()) }
}
impl GenBox for Path { fn gen_box(r: &mut Rng, d: u32) -> Box<Path> { PathBuf::gen(r, d).into_boxed_path() } }

// ---- owned buffers -------------------------------------------------------------------------------
impl Reflect for String {
    fn ty() -> String { "TString".into() }
    fn sizes(m: &mut Sizes) { m.put(Self::ty(), std::mem::size_of::<Self>()); }
    fn val(&self) -> String { format!("(VBuf {} {})", self.capacity(), self.len()) }
}
impl Gen for String {
    fn gen(r: &mut Rng, _d: u32) -> String {
        let mut s = if r.below(3) == 0 { String::new() } else { String::with_capacity(r.below(40) as usize) };
        for _ in 0..r.below(5) {
            match r.below(6) {
                0 | 1 => { let n = r.below(9); let t = ascii(r, n); s.push_str(&t) }
                2 => s.reserve(r.below(30) as usize),
                3 => s.shrink_to(r.below(20) as usize),
                4 => s.truncate(r.below(6) as usize),
                _ => if r.below(3) == 0 { s.shrink_to_fit() } else { s.reserve_exact(r.below(10) as usize) },
            }
        }
        s
    }
}
impl Reflect for OsString {
    fn ty() -> String { "TOsString".into() }
    fn sizes(m: &mut Sizes) { m.put(Self::ty(), std::mem::size_of::<Self>()); }
    fn val(&self) -> String { format!("(VBuf {} {})", self.capacity(), self.len()) }
}
impl Gen for OsString {
    fn gen(r: &mut Rng, _d: u32) -> OsString {
        let mut s = if r.below(3) == 0 { OsString::new() } else { OsString::with_capacity(r.below(40) as usize) };
        for _ in 0..r.below(5) {
            match r.below(5) {
                0 | 1 => { let n = r.below(9); let t = ascii(r, n); s.push(&t) }
                2 => s.reserve(r.below(30) as usize),
                3 => s.shrink_to(r.below(20) as usize),
                _ => if r.below(3) == 0 { s.clear() } else { s.reserve_exact(r.below(10) as usize) },
            }
        }
        s
    }
}
impl Reflect for PathBuf {
    fn ty() -> String { "TPathBuf".into() }
    fn sizes(m: &mut Sizes) { m.put(Self::ty(), std::mem::size_of::<Self>()); }
    fn val(&self) -> String { format!("(VBuf {} {})", self.capacity(), self.as_os_str().len()) }
}
impl Gen for PathBuf {
    fn gen(r: &mut Rng, _d: u32) -> PathBuf {
        let mut s = if r.below(3) == 0 { PathBuf::new() } else { PathBuf::with_capacity(r.below(60) as usize) };
        for _ in 0..r.below(5) {
            match r.below(5) {
                0 | 1 => { let n = 1 + r.below(7); let t = ascii(r, n); s.push(&t) }
                2 => s.reserve(r.below(30) as usize),
                3 => s.shrink_to(r.below(20) as usize),
                _ => if r.below(3) == 0 { s.pop(); } else { s.reserve_exact(r.below(10) as usize) },
            }
        }
        s
    }
}
impl Reflect for CString {
    fn ty() -> String { "TCString".into() }
    fn sizes(m: &mut Sizes) { m.put(Self::ty(), std::mem::size_of::<Self>()); }
    fn val(&self) -> String { format!("(VCString {})", self.as_bytes().len()) }
}
impl Gen for CString {
    fn gen(r: &mut Rng, _d: u32) -> CString {
        let n = r.below(14);
        let mut bytes = Vec::with_capacity(r.below(30) as usize);
        for _ in 0..n { bytes.push(1 + r.below(255) as u8); }
        CString::new(bytes).unwrap()
    }
}

// ---- Vec, BinaryHeap, slices, arrays --------------------------------------------------------------
impl<T: Reflect> Reflect for Vec<T> {
    fn ty() -> String { format!("(TVec {})", T::ty()) }
    fn sizes(m: &mut Sizes) { if m.put(Self::ty(), std::mem::size_of::<Self>()) { T::sizes(m) } }
    fn val(&self) -> String { format!("(VVec {} {})", self.capacity(), list(self.iter().map(|x| x.val()))) }
}
impl<T: Gen> Gen for Vec<T> {
    fn gen(r: &mut Rng, d: u32) -> Vec<T> {
        let mx = maxn(d) as usize;
        let mut v: Vec<T> = if r.below(3) == 0 { Vec::new() } else { Vec::with_capacity(r.below(2 * mx as u64 + 3) as usize) };
        for _ in 0..r.below(7) {
            match r.below(9) {
                0 | 1 | 2 => if v.len() < mx { v.push(T::gen(r, d + 1)) },
                3 => { let n = r.below(3) as usize; if v.len() + n <= mx { let items: Vec<T> = (0..n).map(|_| T::gen(r, d + 1)).collect(); v.extend(items) } }
                4 => v.reserve(r.below(8) as usize),
                5 => v.reserve_exact(r.below(8) as usize),
                6 => v.shrink_to(r.below(8) as usize),
                7 => v.truncate(r.below(mx as u64 + 1) as usize),
                _ => if r.below(3) == 0 { v.shrink_to_fit() } else { v.pop(); },
            }
        }
        v
    }
}
impl<T: Reflect + Ord> Reflect for BinaryHeap<T> {
    fn ty() -> String { format!("(TBinaryHeap {})", T::ty()) }
    fn sizes(m: &mut Sizes) { if m.put(Self::ty(), std::mem::size_of::<Self>()) { T::sizes(m) } }
    fn val(&self) -> String { format!("(VVec {} {})", self.capacity(), list(self.iter().map(|x| x.val()))) }
}
impl<T: Gen + Ord> Gen for BinaryHeap<T> {
    fn gen(r: &mut Rng, d: u32) -> BinaryHeap<T> {
        let mx = maxn(d) as usize;
        let mut v: BinaryHeap<T> = if r.below(3) == 0 { BinaryHeap::new() } else { BinaryHeap::with_capacity(r.below(2 * mx as u64 + 3) as usize) };
        for _ in 0..r.below(7) {
            match r.below(7) {
                0 | 1 | 2 => if v.len() < mx { v.push(T::gen(r, d + 1)) },
                3 => v.reserve(r.below(8) as usize),
                4 => v.shrink_to(r.below(8) as usize),
                5 => { v.pop(); }
                _ => if r.below(3) == 0 { v.shrink_to_fit() } else { v.reserve_exact(r.below(8) as usize) },
            }
        }
        v
    }
}
impl<T: Reflect> Reflect for [T] {
    fn ty() -> String { format!("(TSlice {})", T::ty()) }
    fn sizes(m: &mut Sizes) { T::sizes(m) }
    fn val(&self) -> String { format!("(VSeq {})", list(self.iter().map(|x| x.val()))) }
}
impl<T: Gen> GenBox for [T] { fn gen_box(r: &mut Rng, d: u32) -> Box<[T]> { Vec::<T>::gen(r, d).into_boxed_slice() } }
impl<T: Reflect, const N: usize> Reflect for [T; N] {
    fn ty() -> String { format!("(TArray {} {})", N, T::ty()) }
    fn sizes(m: &mut Sizes) { if m.put(Self::ty(), std::mem::size_of::<Self>()) { T::sizes(m) } }
    fn val(&self) -> String { format!("(VSeq {})", list(self.iter().map(|x| x.val()))) }
}
impl<T: Gen, const N: usize> Gen for [T; N] {
    fn gen(r: &mut Rng, d: u32) -> [T; N] { std::array::from_fn(|_| T::gen(r, d + 1)) }
}

// ---- tuples ---------------------------------------------------------------------------------------
macro_rules! tuple_reflect {
    ($($t:ident),+) => {
        impl<$($t: Reflect),+> Reflect for ($($t,)+) {
            fn ty() -> String { format!("(TTuple {})", list(vec![$($t::ty()),+].into_iter())) }
            fn sizes(m: &mut Sizes) { if m.put(Self::ty(), std::mem::size_of::<Self>()) { $($t::sizes(m);)+ } }
            #[allow(non_snake_case)]
            fn val(&self) -> String { let ($($t,)+) = self; format!("(VSeq {})", list(vec![$($t.val()),+].into_iter())) }
        }
        impl<$($t: Gen),+> Gen for ($($t,)+) {
            fn gen(r: &mut Rng, d: u32) -> Self { ($($t::gen(r, d + 1),)+) }
        }
    };
}
tuple_reflect!(A);
tuple_reflect!(A, B);
tuple_reflect!(A, B, C);
tuple_reflect!(A, B, C, D);
tuple_reflect!(A, B, C, D, E);
tuple_reflect!(A, B, C, D, E, F);
tuple_reflect!(A, B, C, D, E, F, G);
tuple_reflect!(A, B, C, D, E, F, G, H);
tuple_reflect!(A, B, C, D, E, F, G, H, I);
tuple_reflect!(A, B, C, D, E, F, G, H, I, J);

// ---- Box, references ------------------------------------------------------------------------------
impl<T: Reflect + ?Sized> Reflect for Box<T> {
    fn ty() -> String { format!("(TBox {})", T::ty()) }
    fn sizes(m: &mut Sizes) { if m.put(Self::ty(), std::mem::size_of::<Self>()) { T::sizes(m) } }
    fn val(&self) -> String { format!("(VBox {})", (**self).val()) }
}
impl<T: GenBox + ?Sized> Gen for Box<T> { fn gen(r: &mut Rng, d: u32) -> Box<T> { T::gen_box(r, d + 1) } }

fn leak<T: GenBox + ?Sized>(r: &mut Rng, d: u32) -> &'static mut T {
    let before = live();
    let p = Box::leak(T::gen_box(r, d + 1));
    REF_EXTRA.with(|c| c.set(c.get() + (live() - before)));
    p
}
impl<T: Reflect + ?Sized> Reflect for &'static T {
    fn ty() -> String { format!("(TRef {})", T::ty()) }
    fn sizes(m: &mut Sizes) { if m.put(Self::ty(), std::mem::size_of::<Self>()) { T::sizes(m) } }
    fn val(&self) -> String { format!("(VRef {})", (**self).val()) }
}
impl<T: GenBox + ?Sized> Gen for &'static T { fn gen(r: &mut Rng, d: u32) -> &'static T { leak::<T>(r, d) } }
impl<T: Reflect + ?Sized> Reflect for &'static mut T {
    fn ty() -> String { format!("(TRef {})", T::ty()) }
    fn sizes(m: &mut Sizes) { if m.put(Self::ty(), std::mem::size_of::<Self>()) { T::sizes(m) } }
    fn val(&self) -> String { format!("(VRef {})", (**self).val()) }
}
impl<T: GenBox + ?Sized> Gen for &'static mut T { fn gen(r: &mut Rng, d: u32) -> &'static mut T { leak::<T>(r, d) } }

// ---- Option, Result, Wrapping, ranges, locks, PhantomData --------------------------------------------
impl<T: Reflect> Reflect for Option<T> {
    fn ty() -> String { format!("(TOption {})", T::ty()) }
    fn sizes(m: &mut Sizes) { if m.put(Self::ty(), std::mem::size_of::<Self>()) { T::sizes(m) } }
    fn val(&self) -> String { match self { None => "VNone".into(), Some(x) => format!("(VSome {})", x.val()) } }
}
impl<T: Gen> Gen for Option<T> {
    fn gen(r: &mut Rng, d: u32) -> Option<T> { if r.below(4) == 0 { None } else { Some(T::gen(r, d + 1)) } }
}
impl<T: Reflect, E: Reflect> Reflect for Result<T, E> {
    fn ty() -> String { format!("(TResult {} {})", T::ty(), E::ty()) }
    fn sizes(m: &mut Sizes) { if m.put(Self::ty(), std::mem::size_of::<Self>()) { T::sizes(m); E::sizes(m) } }
    fn val(&self) -> String { match self { Ok(x) => format!("(VOk {})", x.val()), Err(x) => format!("(VErr {})", x.val()) } }
}
impl<T: Gen, E: Gen> Gen for Result<T, E> {
    fn gen(r: &mut Rng, d: u32) -> Result<T, E> { if r.below(2) == 0 { Ok(T::gen(r, d + 1)) } else { Err(E::gen(r, d + 1)) } }
}
impl<T: Reflect> Reflect for Wrapping<T> {
    fn ty() -> String { format!("(TWrapping {})", T::ty()) }
    fn sizes(m: &mut Sizes) { if m.put(Self::ty(), std::mem::size_of::<Self>()) { T::sizes(m) } }
    fn val(&self) -> String { format!("(VWrap {})", self.0.val()) }
}
impl<T: Gen> Gen for Wrapping<T> { fn gen(r: &mut Rng, d: u32) -> Self { Wrapping(T::gen(r, d + 1)) } }

macro_rules! range_reflect {
    ($t:ident, $shape:expr, |$s:ident| [$($field:expr),+], |$a:ident, $b:ident| $mk:expr) => {
        impl<T: Reflect> Reflect for $t<T> {
            fn ty() -> String { format!("(TRange {} {})", $shape, T::ty()) }
            fn sizes(m: &mut Sizes) { if m.put(Self::ty(), std::mem::size_of::<Self>()) { T::sizes(m) } }
            fn val(&self) -> String { let $s = self; format!("(VSeq {})", list(vec![$($field.val()),+].into_iter())) }
        }
        impl<T: Gen> Gen for $t<T> {
            #[allow(unused_variables)]
            fn gen(r: &mut Rng, d: u32) -> Self { let $a = T::gen(r, d + 1); let $b = T::gen(r, d + 1); $mk }
        }
    };
}
range_reflect!(Range, "RRange", |s| [s.start, s.end], |a, b| a..b);
range_reflect!(RangeFrom, "RRangeFrom", |s| [s.start], |a, b| a..);
range_reflect!(RangeTo, "RRangeTo", |s| [s.end], |a, b| ..a);
range_reflect!(RangeInclusive, "RRangeInclusive", |s| [s.start(), s.end()], |a, b| a..=b);
range_reflect!(RangeToInclusive, "RRangeToInclusive", |s| [s.end], |a, b| ..=a);

impl<T: Reflect> Reflect for Mutex<T> {
    fn ty() -> String { format!("(TMutex {})", T::ty()) }
    fn sizes(m: &mut Sizes) { if m.put(Self::ty(), std::mem::size_of::<Self>()) { T::sizes(m) } }
    fn val(&self) -> String { format!("(VLock {} {})", self.is_poisoned(), self.lock().unwrap().val()) }
}
impl<T: Gen> Gen for Mutex<T> { fn gen(r: &mut Rng, d: u32) -> Self { Mutex::new(T::gen(r, d + 1)) } }
impl<T: Reflect> Reflect for RwLock<T> {
    fn ty() -> String { format!("(TRwLock {})", T::ty()) }
    fn sizes(m: &mut Sizes) { if m.put(Self::ty(), std::mem::size_of::<Self>()) { T::sizes(m) } }
    fn val(&self) -> String { format!("(VLock {} {})", self.is_poisoned(), self.read().unwrap().val()) }
}
impl<T: Gen> Gen for RwLock<T> { fn gen(r: &mut Rng, d: u32) -> Self { RwLock::new(T::gen(r, d + 1)) } }
impl<T> Reflect for PhantomData<T> {
    fn ty() -> String { "TPhantom".into() }
    fn sizes(m: &mut Sizes) { m.put(Self::ty(), std::mem::size_of::<Self>()); }
    fn val(&self) -> String { "VUnit".into() }
}
impl<T> Gen for PhantomData<T> { fn gen(_r: &mut Rng, _d: u32) -> Self { PhantomData } }

// ---- hash tables ----------------------------------------------------------------------------------
/// a BuildHasher that owns heap memory; HeapSize delegates to the Vec (default bulk helpers, which the
/// HashMap / HashSet impls never call on S).  Reflected as the Vec<u8> it wraps (same size_of).
pub struct VecHasher(Vec<u8>);
impl BuildHasher for VecHasher {
    type Hasher = DefaultHasher;
    #[allow(deprecated)]
    fn build_hasher(&self) -> DefaultHasher { DefaultHasher::new() }
}
impl HeapSize for VecHasher { fn heap_size(&self) -> usize { self.0.heap_size() } }
impl Reflect for VecHasher {
    fn ty() -> String { Vec::<u8>::ty() }
    fn sizes(m: &mut Sizes) { assert_eq!(std::mem::size_of::<Self>(), std::mem::size_of::<Vec<u8>>()); Vec::<u8>::sizes(m) }
    fn val(&self) -> String { self.0.val() }
}
impl Gen for VecHasher { fn gen(r: &mut Rng, d: u32) -> Self { VecHasher(Vec::<u8>::gen(r, d + 2)) } }

/// deterministic (fixed-key SipHash) hash of a key: decisions and listings must not depend on RandomState's order
fn dh<K: Hash + ?Sized>(k: &K) -> u64 { use std::hash::Hasher; #[allow(deprecated)] let mut h = DefaultHasher::new(); k.hash(&mut h); h.finish() }

/// number of buckets of a hashbrown table without tombstones, from its capacity()
/// (inverse of bucket_mask_to_capacity on {0, 4, 8, 16, ...}; 0 = the unallocated singleton)
fn buckets_of(cap: usize) -> usize { if cap == 0 { 0 } else if cap < 4 { 4 } else if cap < 8 { 8 } else { cap / 7 * 8 } }

impl<K: Reflect + Hash, V: Reflect, S: Reflect> Reflect for HashMap<K, V, S> {
    fn ty() -> String { format!("(THashMap {} {} {})", K::ty(), V::ty(), S::ty()) }
    fn sizes(m: &mut Sizes) {
        if m.put(Self::ty(), std::mem::size_of::<Self>()) {
            m.put(format!("(TTuple [{}; {}])", K::ty(), V::ty()), std::mem::size_of::<(K, V)>());
            K::sizes(m); V::sizes(m); S::sizes(m)
        }
    }
    fn val(&self) -> String {
        let mut es: Vec<(&K, &V)> = self.iter().collect();
        es.sort_by_key(|(k, _)| dh(*k));
        format!("(VMap {} {} {} {} {})", buckets_of(self.capacity()), self.capacity(), self.hasher().val(),
            list(es.iter().map(|(k, _)| K::val(k))), list(es.iter().map(|(_, v)| V::val(v))))
    }
    fn table_lower(&self) -> Option<usize> {
        Some(self.capacity() * std::mem::size_of::<(K, V)>() + self.iter().map(|(k, v)| K::heap_size(k) + V::heap_size(v)).sum::<usize>())
    }
}
impl<K: Gen + Hash + Eq, V: Gen, S: Gen + BuildHasher> Gen for HashMap<K, V, S> {
    fn gen(r: &mut Rng, d: u32) -> Self {
        let mx = 2 * maxn(d) as usize;
        let s = S::gen(r, d + 1);
        let mut m: HashMap<K, V, S> = if r.below(3) == 0 { HashMap::with_hasher(s) } else { HashMap::with_capacity_and_hasher(r.below(20) as usize, s) };
        for _ in 0..r.below(9) {
            match r.below(8) {
                0 | 1 | 2 | 3 => if m.len() < mx { m.insert(K::gen(r, d + 1), V::gen(r, d + 1)); },
                4 => m.reserve(r.below(20) as usize),
                5 => m.shrink_to(r.below(12) as usize),
                // never more than 12 entries: an erase cannot leave a tombstone (that needs 16 consecutive full
                // control bytes), so capacity() keeps determining the bucket count
                6 => { let k = K::gen(r, d + 1); m.remove(&k); }
                _ => match r.below(3) {
                    0 => m.shrink_to_fit(),
                    1 => { if let Some(t) = m.keys().map(|k| dh(k)).min() { m.retain(|k, _| dh(k) == t) } }   // keep one entry, keep the table
                    _ => { let mask = r.next(); m.retain(|k, _| mask >> (dh(k) % 64) & 1 == 1); }
                },
            }
        }
        m
    }
}
impl<T: Reflect + Hash, S: Reflect> Reflect for HashSet<T, S> {
    fn ty() -> String { format!("(THashSet {} {})", T::ty(), S::ty()) }
    fn sizes(m: &mut Sizes) { if m.put(Self::ty(), std::mem::size_of::<Self>()) { T::sizes(m); S::sizes(m) } }
    fn val(&self) -> String {
        let mut es: Vec<&T> = self.iter().collect();
        es.sort_by_key(|k| dh(*k));
        format!("(VSet {} {} {} {})", buckets_of(self.capacity()), self.capacity(), self.hasher().val(), list(es.iter().map(|k| T::val(k))))
    }
    fn table_lower(&self) -> Option<usize> {
        Some(self.capacity() * std::mem::size_of::<T>() + self.iter().map(|k| T::heap_size(k)).sum::<usize>())
    }
}
impl<T: Gen + Hash + Eq, S: Gen + BuildHasher> Gen for HashSet<T, S> {
    fn gen(r: &mut Rng, d: u32) -> Self {
        let mx = 2 * maxn(d) as usize;
        let s = S::gen(r, d + 1);
        let mut m: HashSet<T, S> = if r.below(3) == 0 { HashSet::with_hasher(s) } else { HashSet::with_capacity_and_hasher(r.below(20) as usize, s) };
        for _ in 0..r.below(9) {
            match r.below(7) {
                0 | 1 | 2 | 3 => if m.len() < mx { m.insert(T::gen(r, d + 1)); },
                4 => m.reserve(r.below(20) as usize),
                5 => m.shrink_to(r.below(12) as usize),
                _ => if r.below(3) == 0 { m.shrink_to_fit() } else { let k = T::gen(r, d + 1); m.remove(&k); },
            }
        }
        m
    }
}

// ------------------------------------------------------------------------------------------------
// probing
// ------------------------------------------------------------------------------------------------
struct Ctx { seed: u64, reps: usize, only: Option<String>, sizes: Sizes, out: String, tid: usize }

fn fnv(s: &str) -> u64 { let mut h = 0xcbf29ce484222325u64; for b in s.bytes() { h ^= b as u64; h = h.wrapping_mul(0x100000001b3); } h }

fn fmt_idx(v: &[usize]) -> String { v.iter().map(|x| x.to_string()).collect::<Vec<_>>().join(",") }

fn run<T: Reflect + GenBox + ?Sized + 'static>(ctx: &mut Ctx) {
    let name = std::any::type_name::<T>();
    if let Some(o) = &ctx.only { if !name.contains(o.as_str()) { return; } }
    let tid = ctx.tid; ctx.tid += 1;
    T::sizes(&mut ctx.sizes);
    ctx.out.push_str(&format!("TYPE\t{}\t{}\t{}\n", tid, name, T::ty()));
    let mut rng = Rng::seeded(ctx.seed, fnv(name));
    // the pool: `reps` values, each built under the counting allocator
    let mut pool: Vec<Box<T>> = Vec::with_capacity(ctx.reps);
    let mut lives: Vec<usize> = Vec::with_capacity(ctx.reps);
    for _ in 0..ctx.reps {
        REF_EXTRA.with(|c| c.set(0));
        let before = live();
        let b = T::gen_box(&mut rng, 0);
        let after = live();
        let own = after - before - REF_EXTRA.with(|c| c.get()) - std::mem::size_of_val::<T>(&*b);
        pool.push(b); lives.push(own);
    }
    let items: Vec<&T> = pool.iter().map(|b| &**b).collect();
    for (i, v) in items.iter().enumerate() {
        ctx.out.push_str(&format!("CASE\t{}\t{}\t{}\t{}\t{}\t{}\t{}\t{}\n", tid, i, T::val(v), T::heap_size(v), T::mem_size(v), T::value_size(v), lives[i],
            T::table_lower(v).map(|x| x.to_string()).unwrap_or_else(|| "-".into())));
    }
    // bulk helpers over several iterator shapes; every record lists the pool indices the iterator yields
    let k = items.len();
    let all: Vec<usize> = (0..k).collect();
    let mut emit = |shape: &str, idx: &[usize], hs_sum: usize, hs_exact: Option<usize>, vs_sum: usize, vs_exact: Option<usize>| {
        let f = |o: Option<usize>| o.map(|x| x.to_string()).unwrap_or_else(|| "-".into());
        ctx.out.push_str(&format!("BULK\t{}\t{}\t{}\t{}\t{}\t{}\t{}\n", tid, shape, fmt_idx(idx), hs_sum, f(hs_exact), vs_sum, f(vs_exact)));
    };
    // 1. plain slice iterator (exact size)
    emit("plain", &all,
        T::heap_size_sum_iter(|| items.iter().copied()), Some(T::heap_size_sum_exact_size_iter(|| items.iter().copied())),
        T::value_size_sum_iter(items.iter().copied()), Some(T::value_size_sum_exact_size_iter(items.iter().copied())));
    // 2. mapped through index plans (exact size): reversed, with repetitions, a sub-multiset, empty
    let mut plans: Vec<(&str, Vec<usize>)> = vec![("mapped-rev", all.iter().rev().cloned().collect()), ("mapped-empty", vec![])];
    if k > 0 {
        let n = rng.below(2 * k as u64 + 1) as usize;
        plans.push(("mapped-rep", (0..n).map(|_| rng.below(k as u64) as usize).collect()));
        plans.push(("mapped-one", vec![rng.below(k as u64) as usize]));
    }
    for (shape, plan) in &plans {
        emit(shape, plan,
            T::heap_size_sum_iter(|| plan.iter().map(|&i| items[i])), Some(T::heap_size_sum_exact_size_iter(|| plan.iter().map(|&i| items[i]))),
            T::value_size_sum_iter(plan.iter().map(|&i| items[i])), Some(T::value_size_sum_exact_size_iter(plan.iter().map(|&i| items[i]))));
    }
    // 3. filtered (not exact size)
    let mask = rng.next();
    let kept: Vec<usize> = all.iter().cloned().filter(|i| mask >> (i % 64) & 1 == 1).collect();
    emit("filtered", &kept,
        T::heap_size_sum_iter(|| items.iter().enumerate().filter(|(i, _)| mask >> (i % 64) & 1 == 1).map(|(_, x)| *x)), None,
        T::value_size_sum_iter(items.iter().enumerate().filter(|(i, _)| mask >> (i % 64) & 1 == 1).map(|(_, x)| *x)), None);
    // 4. chained (not exact size): a prefix followed by a suffix, overlapping or not
    let a = rng.below(k as u64 + 1) as usize; let b = rng.below(k as u64 + 1) as usize;
    let chained: Vec<usize> = (0..a).chain(b..k).collect();
    emit("chained", &chained,
        T::heap_size_sum_iter(|| items[..a].iter().copied().chain(items[b..].iter().copied())), None,
        T::value_size_sum_iter(items[..a].iter().copied().chain(items[b..].iter().copied())), None);
    // 5. reversed, skipped, stepped (exact size)
    let stepped: Vec<usize> = (0..k).rev().skip(1).step_by(2).collect();
    emit("rev-skip-step", &stepped,
        T::heap_size_sum_iter(|| items.iter().copied().rev().skip(1).step_by(2)), Some(T::heap_size_sum_exact_size_iter(|| items.iter().copied().rev().skip(1).step_by(2))),
        T::value_size_sum_iter(items.iter().copied().rev().skip(1).step_by(2)), Some(T::value_size_sum_exact_size_iter(items.iter().copied().rev().skip(1).step_by(2))));
}

macro_rules! types {
    ($ctx:expr; $($t:ty),+ $(,)?) => { $( run::<$t>($ctx); )+ };
}

type RS = RandomState;
type S3 = (String, Vec<u8>, Option<Box<str>>);

/// the release build probes a representative subset (every constructor, every bulk override, nesting up to 5):
/// optimising all ~300 instantiations takes minutes, and the check rebuilds whenever the crate changes
#[cfg(not(debug_assertions))]
fn run_all(ctx: &mut Ctx) {
    types!(ctx; (), u64, RS, str, CStr, Path, [String], [[String; 2]], String, OsString, PathBuf, CString,
        Vec<u8>, Vec<()>, Vec<String>, Vec<Vec<String>>, Vec<Box<[u16]>>, Vec<(String, Vec<u8>, Box<u16>)>, Vec<[String; 0]>, Vec<[[String; 0]; 2]>, Vec<([String; 2], [Box<u8>; 0])>,
        Box<u64>, Box<[String]>, Box<str>, Box<CStr>, Box<OsStr>, Box<Path>, Box<Box<Box<Vec<u8>>>>, Box<[Box<[String]>]>,
        [String; 0], [String; 3], [[Box<u8>; 2]; 3], [(String, Box<[u8; 2]>, [Box<str>; 2]); 2], [Box<[String; 2]>; 2],
        (String,), (u8, String), S3, (String, Vec<u8>, Box<u8>, Option<String>, [String; 2], (u8, String), Wrapping<String>, Range<String>, PathBuf, Box<[u8]>),
        (Box<(String, Box<(u8, String)>)>, u8), Option<Box<[String]>>, Result<Box<[String]>, (u8, String)>, Wrapping<[String; 2]>, Wrapping<Option<Box<str>>>,
        Range<Vec<u8>>, RangeFrom<Box<[u8]>>, RangeTo<(u8, String)>, RangeInclusive<Vec<String>>, RangeToInclusive<Option<String>>,
        Mutex<(String, Vec<u8>)>, RwLock<Vec<Box<u8>>>, PhantomData<String>, &'static [String], &'static mut String, (&'static String, Box<&'static str>),
        BinaryHeap<(u8, String)>, BinaryHeap<Box<CStr>>, HashMap<u32, String, RS>, HashMap<String, Vec<u8>, VecHasher>, HashMap<u16, HashMap<u8, String, RS>, RS>,
        HashSet<(u8, String), RS>, HashSet<String, VecHasher>, [HashMap<u8, Box<str>, RS>; 2]);
}

#[cfg(debug_assertions)]
fn run_all(ctx: &mut Ctx) {
    // leaves
    types!(ctx; (), u8, u16, u32, u64, u128, usize, i8, i16, i32, i64, i128, isize, f32, f64, bool, char,
        std::num::NonZeroU8, std::num::NonZeroU16, std::num::NonZeroU32, std::num::NonZeroU64, std::num::NonZeroU128, std::num::NonZeroUsize,
        std::num::NonZeroI8, std::num::NonZeroI16, std::num::NonZeroI32, std::num::NonZeroI64, std::num::NonZeroI128, std::num::NonZeroIsize,
        std::cmp::Ordering, std::time::Duration, std::time::Instant, std::fmt::Alignment, PhantomPinned, std::net::Shutdown, RangeFull,
        std::thread::ThreadId, std::net::Ipv4Addr, std::net::Ipv6Addr, std::net::IpAddr, std::net::SocketAddrV4, std::net::SocketAddrV6,
        std::net::SocketAddr, RS);
    // unsized types, probed directly (items are &str, &[T], ...)
    types!(ctx; str, CStr, OsStr, Path, [u8], [u64], [String], [Vec<u16>], [Box<str>], [(u8, String)], [[String; 2]], [Option<PathBuf>], [()], [[u8; 0]]);
    // owned buffers
    types!(ctx; String, OsString, PathBuf, CString);
    // Vec
    types!(ctx; Vec<u8>, Vec<u64>, Vec<()>, Vec<String>, Vec<PathBuf>, Vec<OsString>, Vec<CString>, Vec<Vec<u8>>, Vec<Vec<String>>, Vec<Vec<Vec<u32>>>,
        Vec<Box<u32>>, Vec<Box<str>>, Vec<Box<[u16]>>, Vec<Box<[String]>>, Vec<Option<String>>, Vec<Option<Box<u64>>>, Vec<Result<String, Vec<u8>>>,
        Vec<(u8, String)>, Vec<(String, Vec<u8>, Box<u16>)>, Vec<[String; 2]>, Vec<[u8; 3]>, Vec<[String; 0]>, Vec<[[String; 0]; 2]>, Vec<[Vec<u8>; 1]>,
        Vec<Wrapping<String>>, Vec<Range<String>>, Vec<Mutex<String>>, Vec<RwLock<Vec<u8>>>, Vec<PhantomData<String>>, Vec<&'static str>, Vec<&'static String>,
        Vec<BinaryHeap<u32>>, Vec<HashMap<u8, String, RS>>, Vec<HashSet<u32, RS>>, Vec<[Box<String>; 2]>, Vec<([String; 2], [Box<u8>; 0])>);
    // Box of sized and unsized
    types!(ctx; Box<u8>, Box<()>, Box<u64>, Box<String>, Box<PathBuf>, Box<Vec<String>>, Box<Box<String>>, Box<Box<Box<Vec<u8>>>>, Box<(u8, String)>, Box<[String; 3]>,
        Box<Option<String>>, Box<[u8]>, Box<[u64]>, Box<[String]>, Box<[Vec<u8>]>, Box<[Box<str>]>, Box<[(u16, String)]>, Box<[[String; 2]]>, Box<[()]>,
        Box<str>, Box<CStr>, Box<OsStr>, Box<Path>, Box<[Box<[String]>]>, Box<[Option<Box<Path>>]>, Box<Mutex<Vec<String>>>, Box<HashMap<String, u32, RS>>,
        Box<[[Box<u16>; 0]]>, Box<Wrapping<Box<str>>>);
    // arrays incl. length 0 and nested
    types!(ctx; [u8; 0], [u8; 4], [String; 0], [String; 1], [String; 3], [Vec<u8>; 2], [Box<str>; 2], [Box<u32>; 3], [(u8, String); 2], [Option<String>; 3],
        [[String; 2]; 2], [[String; 0]; 3], [[String; 2]; 0], [[[String; 1]; 2]; 2], [[Box<u8>; 2]; 3], [Vec<[String; 2]>; 2], [(Box<u8>, [String; 2]); 2],
        [Wrapping<String>; 2], [Box<[u8]>; 2], [PathBuf; 2], [Result<String, Box<u8>>; 2], [Mutex<String>; 2], [Range<Box<u8>>; 2], [HashSet<u8, RS>; 2],
        [(String, Box<[u8; 2]>, [Box<str>; 2]); 2], [[(u8, Box<String>); 2]; 2], [Box<[String; 2]>; 2], [&'static str; 2], [PhantomData<u8>; 3], [(); 5]);
    // tuples of every arity
    types!(ctx; (u8,), (String,), (Box<str>,), (u8, u16), (String, String), (u8, String), (String, Vec<u8>), (Vec<String>, Box<u8>, Option<String>), S3,
        (u8, u16, u32, u64), (String, u8, String, u8), (String, Vec<u8>, Box<u8>, PathBuf, OsString),
        (u8, String, u16, Vec<u8>, u32, Box<u8>), (String, String, String, String, String, String, String),
        (u8, u16, u32, u64, String, Vec<u8>, Box<str>, Option<String>), (String, Vec<String>, Box<u8>, u8, u16, PathBuf, OsString, CString, [String; 2]),
        (String, Vec<u8>, Box<u8>, Option<String>, [String; 2], (u8, String), Wrapping<String>, Range<String>, PathBuf, Box<[u8]>),
        (u8, u8, u8, u8, u8, u8, u8, u8, u8, u8), ((String, u8), (Box<u8>, (String, Vec<u8>))), (Box<(String, Box<(u8, String)>)>, u8),
        ([String; 2], [Box<u8>; 2]), (Option<(String, Box<u8>)>, Result<Vec<u8>, String>), ((), String, ()), (PhantomData<String>, Vec<u8>),
        (Mutex<String>, RwLock<Box<u8>>), (HashMap<u8, u8, RS>, String), (&'static str, String), ([String; 0], String, [[u8; 0]; 2]));
    // Option / Result / Wrapping / ranges / locks / PhantomData / references
    types!(ctx; Option<u8>, Option<String>, Option<Box<u8>>, Option<Vec<String>>, Option<Option<String>>, Option<(String, Vec<u8>)>, Option<[String; 2]>, Option<Box<[String]>>,
        Option<PathBuf>, Option<&'static str>, Result<u8, u8>, Result<String, u8>, Result<String, String>, Result<Vec<u8>, Box<str>>, Result<Box<[String]>, (u8, String)>,
        Result<Option<String>, Result<String, Vec<u8>>>, Result<[String; 2], PathBuf>, Wrapping<u8>, Wrapping<u64>, Wrapping<String>, Wrapping<Vec<String>>,
        Wrapping<Box<u8>>, Wrapping<(String, u8)>, Wrapping<[String; 2]>, Wrapping<Wrapping<String>>, Wrapping<Option<Box<str>>>,
        Range<u8>, Range<String>, Range<Vec<u8>>, Range<Box<u8>>, RangeFrom<String>, RangeFrom<Box<[u8]>>, RangeTo<String>, RangeTo<(u8, String)>,
        RangeInclusive<String>, RangeInclusive<u32>, RangeInclusive<Vec<String>>, RangeToInclusive<String>, RangeToInclusive<Option<String>>,
        Range<[String; 2]>, Mutex<u8>, Mutex<String>, Mutex<Vec<String>>, Mutex<Box<[u8]>>, Mutex<(String, Vec<u8>)>, Mutex<Mutex<String>>,
        RwLock<u8>, RwLock<String>, RwLock<Vec<Box<u8>>>, RwLock<Option<PathBuf>>, RwLock<[String; 2]>, PhantomData<u8>, PhantomData<String>, PhantomData<Vec<String>>,
        &'static u8, &'static String, &'static str, &'static [u8], &'static [String], &'static Vec<String>, &'static Path, &'static CStr, &'static mut String,
        &'static mut [Vec<u8>], &'static Box<String>, &'static (String, Vec<u8>), Option<&'static mut Vec<String>>, (&'static String, Box<&'static str>));
    // BinaryHeap
    types!(ctx; BinaryHeap<u8>, BinaryHeap<u64>, BinaryHeap<String>, BinaryHeap<Box<u32>>, BinaryHeap<(u8, String)>, BinaryHeap<Vec<u8>>, BinaryHeap<Box<str>>,
        BinaryHeap<Option<String>>, BinaryHeap<[String; 2]>, BinaryHeap<PathBuf>, BinaryHeap<Box<CStr>>, BinaryHeap<()>, Mutex<BinaryHeap<Box<CStr>>>);
    // hash tables
    types!(ctx; HashMap<u8, u8, RS>, HashMap<u32, String, RS>, HashMap<String, u64, RS>, HashMap<String, String, RS>, HashMap<u64, Vec<u8>, RS>, HashMap<Box<str>, Box<u32>, RS>,
        HashMap<(u8, u16), [String; 2], RS>, HashMap<[u8; 3], Option<String>, RS>, HashMap<u16, HashMap<u8, String, RS>, RS>, HashMap<PathBuf, Vec<String>, RS>,
        HashMap<u32, (String, Box<u8>), RS>, HashMap<Option<u32>, Wrapping<String>, RS>, HashMap<u8, String, VecHasher>, HashMap<String, Vec<u8>, VecHasher>,
        HashMap<u64, (), RS>, HashMap<char, Box<[u8]>, RS>, HashSet<u8, RS>, HashSet<u64, RS>, HashSet<String, RS>, HashSet<Box<str>, RS>, HashSet<(u8, String), RS>,
        HashSet<[u8; 4], RS>, HashSet<Vec<u8>, RS>, HashSet<PathBuf, RS>, HashSet<Option<Box<u8>>, RS>, HashSet<String, VecHasher>, HashSet<u32, VecHasher>,
        Option<HashMap<u8, String, RS>>, (HashSet<String, RS>, Vec<u8>), Mutex<HashMap<String, String, RS>>, [HashMap<u8, Box<str>, RS>; 2], Wrapping<HashSet<u16, RS>>);
}

// ------------------------------------------------------------------------------------------------
// large-count cases ("finishes without exhausting the stack however many elements there are")
// ------------------------------------------------------------------------------------------------
macro_rules! big_all { ($m:ident; $(($name:expr, $f:expr)),+ $(,)?) => { $( $m!($name, $f); )+ }; }
fn big_cases() -> Vec<(&'static str, fn(usize) -> (usize, usize))> {
    fn s3(n: usize) -> Vec<String> { (0..n).map(|i| { let mut s = String::with_capacity(3 + i % 5); s.push('x'); s }).collect() }
    let mut v: Vec<(&'static str, fn(usize) -> (usize, usize))> = Vec::new();
    macro_rules! big { ($name:expr, $f:expr) => { { let f: fn(usize) -> (usize, usize) = $f; v.push(($name, f)); } }; }
    big_all!(big;
        ("vec_empty_string_arrays", |n| { let v: Vec<[String; 0]> = vec![[]; n]; (v.heap_size(), 0) }),
        ("vec_nested_empty_arrays", |n| { let v: Vec<[[String; 0]; 2]> = (0..n).map(|_| [[], []]).collect(); (v.heap_size(), 0) }),
        ("vec_empty_arrays_of_arrays", |n| { let v: Vec<[[String; 2]; 0]> = vec![[]; n]; (v.heap_size(), 0) }),
        ("vec_empty_box_arrays", |n| { let v: Vec<[Box<u32>; 0]> = (0..n).map(|_| []).collect(); (v.heap_size(), 0) }),
        ("boxed_slice_empty_vec_arrays", |n| { let v: Box<[[Vec<u8>; 0]]> = (0..n).map(|_| []).collect(); (v.heap_size(), 0) }),
        ("bulk_filtered_empty_arrays", |n| {
            let v: Vec<[String; 0]> = vec![[]; n];
            let a = <[String; 0]>::heap_size_sum_iter(|| v.iter().filter(|x| x.len() == 0));
            let b = <[String; 0]>::heap_size_sum_exact_size_iter(|| v.iter());
            let c = <[String; 0]>::heap_size_sum_iter(|| v.iter().chain(v.iter()));
            (a + b + c, 0) }),
        ("tuple_with_empty_arrays", |n| { let v: Vec<([String; 0], u8)> = (0..n).map(|i| ([], i as u8)).collect(); (v.heap_size(), v.capacity() * std::mem::size_of::<([String; 0], u8)>()) }),
        ("vec_strings", |n| { let v = s3(n); let e = v.capacity() * std::mem::size_of::<String>() + v.iter().map(|s| s.capacity()).sum::<usize>(); (v.heap_size(), e) }),
        ("vec_string_pairs", |n| { let v: Vec<[String; 2]> = (0..n).map(|i| [String::with_capacity(i % 4), String::new()]).collect();
            let e = v.capacity() * std::mem::size_of::<[String; 2]>() + v.iter().map(|a| a[0].capacity() + a[1].capacity()).sum::<usize>(); (v.heap_size(), e) }),
        ("vec_boxes", |n| { let v: Vec<Box<u64>> = (0..n).map(|i| Box::new(i as u64)).collect(); (v.heap_size(), v.capacity() * 8 + 8 * n) }),
        ("vec_tuples", |n| { let v: Vec<(u8, String, Option<Box<u16>>)> = (0..n).map(|i| (i as u8, String::with_capacity(i % 3), if i % 2 == 0 { Some(Box::new(1)) } else { None })).collect();
            let e = v.capacity() * std::mem::size_of::<(u8, String, Option<Box<u16>>)>() + v.iter().map(|t| t.1.capacity() + if t.2.is_some() { 2 } else { 0 }).sum::<usize>(); (v.heap_size(), e) }),
        ("vec_u64", |n| { let v: Vec<u64> = vec![7; n]; (v.heap_size(), v.capacity() * 8) }),
        ("vec_of_vecs", |n| { let v: Vec<Vec<u8>> = (0..n).map(|i| Vec::with_capacity(i % 4)).collect(); let e = v.capacity() * 24 + v.iter().map(|x| x.capacity()).sum::<usize>(); (v.heap_size(), e) }),
        ("hashmap_u64_string", |n| { let m: HashMap<u64, String> = (0..n).map(|i| (i as u64, String::with_capacity(i % 3))).collect();
            let e = m.capacity() * std::mem::size_of::<(u64, String)>() + m.values().map(|s| s.capacity()).sum::<usize>(); (m.heap_size(), e) }),
        ("binary_heap_strings", |n| { let h: BinaryHeap<String> = s3(n).into_iter().collect(); let e = h.capacity() * 24 + h.iter().map(|s| s.capacity()).sum::<usize>(); (h.heap_size(), e) }),
        ("bulk_value_sizes", |n| { let v: Vec<Box<[u16]>> = (0..n).map(|i| vec![0u16; i % 3].into_boxed_slice()).collect();
            let a = <[u16]>::value_size_sum_iter(v.iter().map(|b| &**b)); let b = <Box<[u16]>>::heap_size_sum_exact_size_iter(|| v.iter());
            let e: usize = v.iter().map(|b| 2 * b.len()).sum(); (a + b, 2 * e) }),
    );
    v
}

fn main() {
    let args: Vec<String> = std::env::args().collect();
    match args.get(1).map(|s| s.as_str()) {
        Some("gen") => {
            let seed: u64 = args[2].parse().unwrap();
            let reps: usize = args[3].parse().unwrap();
            // warm up lazily initialised runtime state so that it is not attributed to a probed value
            let _ = (std::thread::current().id(), RandomState::new(), std::time::Instant::now());
            let mut ctx = Ctx { seed, reps, only: args.get(4).cloned(), sizes: Sizes(BTreeMap::new()), out: String::new(), tid: 0 };
            run_all(&mut ctx);
            let gw = if cfg!(all(any(target_arch = "x86", target_arch = "x86_64"), target_feature = "sse2")) { 16 } else { 8 };
            let mut head = format!("GW\t{}\nPROFILE\t{}\n", gw, if cfg!(debug_assertions) { "debug" } else { "release" });
            for (t, s) in &ctx.sizes.0 { head.push_str(&format!("SIZEOF\t{}\t{}\n", t, s)); }
            print!("{}{}END\t{}\n", head, ctx.out, ctx.tid);
        }
        Some("biglist") => { for (n, _) in big_cases() { println!("{}", n); } }
        Some("big") => {
            let which = args[2].clone();
            let count: usize = args[3].parse().unwrap();
            let f = big_cases().into_iter().find(|(n, _)| *n == which).expect("unknown case").1;
            let h = std::thread::Builder::new().stack_size(256 * 1024).spawn(move || f(count)).unwrap();
            match h.join() {
                Ok((got, want)) => println!("BIG\t{}\t{}\t{}\t{}", which, count, got, want),
                Err(_) => { println!("BIGPANIC\t{}\t{}", which, count); std::process::exit(3) }
            }
        }
        _ => { eprintln!("usage: memsize_probe gen <seed> <reps> [only] | big <case> <count> | biglist"); std::process::exit(2) }
    }
}
