// The trace machinery as a macro, so that it can be instantiated for several key / value / cache types (see lib.rs).
#[macro_export]
macro_rules! trace_mod {
  ($name:ident, $K:ident, $V:ident, $C:ty, $mk:expr, $tag:expr) => {
    #[allow(dead_code, unused_imports, unused_variables)]
    pub mod $name {
    // Shared trace machinery: operations, their execution on the real LruCache with full observation
    // through the `verif-hooks` snapshot, the structured random generator and the replayer.
    // Stream format (one record per line):
    //   CFG <slot> <max> <cap> <hasher> <E> <VS> <universe>
    //   OP <slot> <name> <args...>
    //   OB <res>|<ents>|<cur>|<max>|<cap>|<nb>|<dropped>|<hashes>|<visits>|<struct>|<flags>|<calls>
    //   END
    use crate::*;
    use lru_mem::{InsertError, LruCache, MutateError, TryInsertError};
    use std::cell::Cell;
    use std::fmt::Write as _;
    use std::io::BufRead;
    use std::panic::{catch_unwind, AssertUnwindSafe};

    pub type K = $K;
    pub type V = $V;
    pub type Cache = $C;

    #[derive(Clone, Debug, PartialEq)]
    pub enum Op {
        Insert(u32, u64, usize, u64, u64, usize),
        TryInsert(u32, u64, usize, u64, u64, usize),
        Get(u32), GetEntry(u32), Peek(u32), PeekEntry(u32), Contains(u32), Touch(u32),
        GetLru, PeekLru, PeekMru, Remove(u32), RemoveEntry(u32), RemoveLru, RemoveMru,
        Mutate(u32, u64, usize), SetMax(usize), Retain(u64), Clear,
        Iter(u8, String),            // kind 0 iter, 1 keys, 2 values
        Drain(String, bool),         // pattern, forget
        Reserve(usize), TryReserve(usize, bool), ShrinkTo(usize), ShrinkToFit,
        Debug, Len, IsEmpty, CurrentSize, MaxSize, Capacity,
        Clone(usize), DropC, IntoIter(u8, String, bool),   // kind 0 pairs, 1 keys, 2 values
    }

    pub fn pat_s(p: &str) -> &str { if p.is_empty() { "-" } else { p } }
    pub fn pat_p(p: &str) -> String { if p == "-" { String::new() } else { p.to_string() } }

    impl Op {
        pub fn line(&self) -> String {
            use Op::*;
            match self {
                Insert(i, kt, kh, vt, vg, vh) => format!("insert {} {} {} {} {} {}", i, kt, kh, vt, vg, vh),
                TryInsert(i, kt, kh, vt, vg, vh) => format!("try_insert {} {} {} {} {} {}", i, kt, kh, vt, vg, vh),
                Get(i) => format!("get {}", i), GetEntry(i) => format!("get_entry {}", i),
                Peek(i) => format!("peek {}", i), PeekEntry(i) => format!("peek_entry {}", i),
                Contains(i) => format!("contains {}", i), Touch(i) => format!("touch {}", i),
                GetLru => "get_lru".into(), PeekLru => "peek_lru".into(), PeekMru => "peek_mru".into(),
                Remove(i) => format!("remove {}", i), RemoveEntry(i) => format!("remove_entry {}", i),
                RemoveLru => "remove_lru".into(), RemoveMru => "remove_mru".into(),
                Mutate(i, t, h) => format!("mutate {} {} {}", i, t, h),
                SetMax(m) => format!("set_max {}", m), Retain(m) => format!("retain {}", m), Clear => "clear".into(),
                Iter(k, p) => format!("iter {} {}", ["iter", "keys", "values"][*k as usize], pat_s(p)),
                Drain(p, f) => format!("drain {} {}", pat_s(p), if *f { "forget" } else { "drop" }),
                Reserve(n) => format!("reserve {}", n),
                TryReserve(n, fail) => format!("try_reserve {} {}", n, if *fail { "fail" } else { "ok" }),
                ShrinkTo(n) => format!("shrink_to {}", n), ShrinkToFit => "shrink_to_fit".into(),
                Debug => "debug".into(), Len => "len".into(), IsEmpty => "is_empty".into(),
                CurrentSize => "current_size".into(), MaxSize => "max_size".into(), Capacity => "capacity".into(),
                Clone(d) => format!("clone {}", d), DropC => "dropc".into(),
                IntoIter(k, p, f) => format!("into_iter {} {} {}", ["pairs", "keys", "values"][*k as usize], pat_s(p), if *f { "forget" } else { "drop" }),
            }
        }
        pub fn parse(w: &[&str]) -> Option<Op> {
            use Op::*;
            let u32_ = |s: &str| s.parse::<u32>().ok();
            let u64_ = |s: &str| s.parse::<u64>().ok();
            let us = |s: &str| s.parse::<usize>().ok();
            Some(match w {
                ["insert", i, kt, kh, vt, vg, vh] => Insert(u32_(i)?, u64_(kt)?, us(kh)?, u64_(vt)?, u64_(vg)?, us(vh)?),
                ["try_insert", i, kt, kh, vt, vg, vh] => TryInsert(u32_(i)?, u64_(kt)?, us(kh)?, u64_(vt)?, u64_(vg)?, us(vh)?),
                ["get", i] => Get(u32_(i)?), ["get_entry", i] => GetEntry(u32_(i)?), ["peek", i] => Peek(u32_(i)?),
                ["peek_entry", i] => PeekEntry(u32_(i)?), ["contains", i] => Contains(u32_(i)?), ["touch", i] => Touch(u32_(i)?),
                ["get_lru"] => GetLru, ["peek_lru"] => PeekLru, ["peek_mru"] => PeekMru,
                ["remove", i] => Remove(u32_(i)?), ["remove_entry", i] => RemoveEntry(u32_(i)?),
                ["remove_lru"] => RemoveLru, ["remove_mru"] => RemoveMru,
                ["mutate", i, t, h] => Mutate(u32_(i)?, u64_(t)?, us(h)?),
                ["set_max", m] => SetMax(us(m)?), ["retain", m] => Retain(u64_(m)?), ["clear"] => Clear,
                ["iter", k, p] => Iter(match *k { "iter" => 0, "keys" => 1, "values" => 2, _ => return None }, pat_p(p)),
                ["drain", p, f] => Drain(pat_p(p), *f == "forget"),
                ["reserve", n] => Reserve(us(n)?), ["try_reserve", n, f] => TryReserve(us(n)?, *f == "fail"),
                ["shrink_to", n] => ShrinkTo(us(n)?), ["shrink_to_fit"] => ShrinkToFit,
                ["debug"] => Debug, ["len"] => Len, ["is_empty"] => IsEmpty, ["current_size"] => CurrentSize,
                ["max_size"] => MaxSize, ["capacity"] => Capacity,
                ["clone", d] => Clone(us(d)?), ["dropc"] => DropC,
                ["into_iter", k, p, f] => IntoIter(match *k { "pairs" => 0, "keys" => 1, "values" => 2, _ => return None }, pat_p(p), *f == "forget"),
                _ => return None,
            })
        }
    }

    pub fn kvs(k: &K, v: &V) -> String { format!("{}.{}.{}.{}.{}.{}", k.id.0, k.tok, k.heap, v.tok(), v.tag(), v.heapv()) }
    pub fn ks(k: &K) -> String { format!("{}.{}.{}.-.-.-", k.id.0, k.tok, k.heap) }
    pub fn vs3(v: &V) -> String { format!("{}.{}.{}", v.tok(), v.tag(), v.heapv()) }
    pub fn vsk(v: &V) -> String { format!("-.-.-.{}.{}.{}", v.tok(), v.tag(), v.heapv()) }
    pub fn okv(o: Option<(&K, &V)>) -> String { match o { None => "kv:none".into(), Some((k, v)) => format!("kv:{}", kvs(k, v)) } }

    pub struct Node { pub addr: usize, pub prev: usize, pub next: usize, pub size: usize, pub kid: u32, pub ktok: u64, pub kheap: usize, pub vtok: u64, pub vtag: u64, pub vheap: usize }

    pub fn snapshot(c: &Cache) -> (Vec<Node>, lru_mem::VerifGeometry) {
        let mut nodes = Vec::new();
        let g = c.verif_snapshot(|n| nodes.push(Node { addr: n.addr, prev: n.prev, next: n.next, size: n.size,
            kid: n.key.id.0, ktok: n.key.tok, kheap: n.key.heap, vtok: n.value.tok(), vtag: n.value.tag(), vheap: n.value.heapv() }));
        (nodes, g)
    }

    /// structural fingerprint: everything the hook can see, as one string
    pub fn fingerprint(c: &Cache) -> String {
        let (nodes, g) = snapshot(c);
        let mut s = format!("{:x};{:x};{:x};{};{};{};{};{};{:?};{};", g.seal, g.seal_prev, g.seal_next, g.current_size, g.max_size, g.len,
            g.capacity, g.buckets, g.dangling, g.overlong);
        for n in &nodes { write!(s, "{:x}:{:x}:{:x}:{}:{}:{}:{}:{}:{}:{},", n.addr, n.prev, n.next, n.size, n.kid, n.ktok, n.kheap, n.vtok, n.vtag, n.vheap).unwrap(); }
        s.push(';');
        for b in &g.bucket_addrs { write!(s, "{:x},", b).unwrap(); }
        s
    }

    /// Observation of one cache: fields 1..5 and 9..10 of the OB line.
    /// Also cross-checks every shared-reference API against the hook's walk (flag api) and that none of
    /// them changed the structural fingerprint (flag ro).
    pub fn observe(c: &Cache, universe: u32) -> (String, String, String) {
        let fp_before = fingerprint(c);
        let (nodes, g) = snapshot(c);
        let mut ents = String::new();
        for n in nodes.iter().rev() {
            write!(ents, "{}.{}.{}.{}.{}.{}.{},", n.kid, n.ktok, n.kheap, n.vtok, n.vtag, n.vheap, n.size).unwrap();
        }
        let state = format!("{}|{}|{}|{}|{}", ents, g.current_size, g.max_size, g.capacity, g.buckets);
        let mut st = format!("{:x};", g.seal);
        for n in &nodes { write!(st, "{:x}:{:x}:{:x},", n.addr, n.prev, n.next).unwrap(); }
        st.push(';');
        for b in &g.bucket_addrs { write!(st, "{:x},", b).unwrap(); }
        write!(st, ";{};{};{};{};{:x};{:x}", g.walked, match g.dangling { None => "-".to_string(), Some(a) => format!("{:x}", a) },
            g.overlong as u8, g.len, g.seal_prev, g.seal_next).unwrap();

        // ---- public shared-reference API versus the walk ----
        let mut api: Vec<&'static str> = Vec::new();
        let sound = g.dangling.is_none() && !g.overlong;
        if sound {
            let lru_first: Vec<(u32, u64, u64)> = nodes.iter().rev().map(|n| (n.kid, n.ktok, n.vtok)).collect();
            let fwd: Vec<(u32, u64, u64)> = c.iter().map(|(k, v)| (k.id.0, k.tok, v.tok())).collect();
            let mut rev: Vec<(u32, u64, u64)> = c.iter().rev().map(|(k, v)| (k.id.0, k.tok, v.tok())).collect();
            rev.reverse();
            if fwd != lru_first { api.push("iter"); }
            if rev != lru_first { api.push("iter_rev"); }
            let keys: Vec<u64> = c.keys().map(|k| k.tok).collect();
            let vals: Vec<u64> = c.values().map(|v| v.tok()).collect();
            if keys != lru_first.iter().map(|x| x.1).collect::<Vec<_>>() { api.push("keys"); }
            if vals != lru_first.iter().map(|x| x.2).collect::<Vec<_>>() { api.push("values"); }
            let mut kr: Vec<u64> = c.keys().rev().map(|k| k.tok).collect(); kr.reverse();
            let mut vr: Vec<u64> = c.values().rev().map(|v| v.tok()).collect(); vr.reverse();
            if kr != keys { api.push("keys_rev"); }
            if vr != vals { api.push("values_rev"); }
            // trait methods with default implementations (count, last, nth, size_hint, fold, rev) must agree with the walk too
            if c.iter().count() != nodes.len() || c.keys().count() != nodes.len() || c.values().rev().count() != nodes.len() { api.push("iter_count"); }
            if c.iter().last().map(|(k, v)| (k.id.0, k.tok, v.tok())) != lru_first.last().copied() || c.iter().rev().last().map(|(k, v)| (k.id.0, k.tok, v.tok())) != lru_first.first().copied() { api.push("iter_last"); }
            for n in [0usize, 1, 2, nodes.len().saturating_sub(1), nodes.len()] {
                if c.iter().nth(n).map(|(k, v)| (k.id.0, k.tok, v.tok())) != lru_first.get(n).copied() { api.push("iter_nth"); }
                if c.keys().nth_back(n).map(|k| k.tok) != lru_first.iter().rev().nth(n).map(|x| x.1) { api.push("iter_nth"); }
                if c.values().skip(n).next().map(|v| v.tok()) != lru_first.get(n).map(|x| x.2) { api.push("iter_nth"); }
            }
            { let (lo, hi) = c.iter().size_hint(); if lo > nodes.len() || hi.map_or(false, |h| h < nodes.len()) { api.push("iter_size_hint"); } }
            { let mut it = c.iter(); it.next(); it.next_back(); let (lo, hi) = it.size_hint(); let left = nodes.len().saturating_sub(2); if lo > left || hi.map_or(false, |h| h < left) { api.push("iter_size_hint"); } }
            if c.iter().step_by(2).map(|(k, _)| k.tok).collect::<Vec<_>>() != lru_first.iter().step_by(2).map(|x| x.1).collect::<Vec<_>>() { api.push("iter_nth"); }
            if c.iter().fold(0u64, |a, (k, _)| a.wrapping_mul(31).wrapping_add(k.tok)) != lru_first.iter().fold(0u64, |a, x| a.wrapping_mul(31).wrapping_add(x.1)) { api.push("iter_fold"); }
            if c.iter().rfold(0u64, |a, (k, _)| a.wrapping_mul(31).wrapping_add(k.tok)) != lru_first.iter().rfold(0u64, |a, x| a.wrapping_mul(31).wrapping_add(x.1)) { api.push("iter_fold"); }
            // an exhausted iterator stays exhausted for every way of asking. Every state is first probed with a BOUNDED number
            // of single steps (an iterator that does not stop within len + 2 steps is reported, not followed), and only then
            // handed to the by-value trait methods, which would otherwise loop for ever on such an iterator
            {
                let b = nodes.len() + 2;
                fn ends_f<I: Iterator>(mut it: I, bound: usize) -> bool { for _ in 0..bound { if it.next().is_none() { return true; } } false }
                fn drain_f<I: Iterator>(it: &mut I, bound: usize) -> bool { for _ in 0..bound { if it.next().is_none() { return true; } } false }
                fn drain_b<I: DoubleEndedIterator>(it: &mut I, bound: usize) -> bool { for _ in 0..bound { if it.next_back().is_none() { return true; } } false }
                // front-exhausted
                let mk1 = || { let mut it = c.iter(); let ok = drain_f(&mut it, b); (it, ok) };
                let (mut it, ok) = mk1();
                if !ok || it.next_back().is_some() || it.nth(0).is_some() || !ends_f(mk1().0, b) { api.push("iter_last"); }
                else {
                    if mk1().0.last().is_some() { api.push("iter_last"); }
                    if mk1().0.count() != 0 { api.push("iter_count"); }
                    if mk1().0.fold(0usize, |a, _| a + 1) != 0 { api.push("iter_fold"); }
                }
                // back-exhausted (the last entry was taken from the back)
                let mk2 = || { let mut it = c.keys(); let ok = drain_b(&mut it, b); (it, ok) };
                let (mut it, ok) = mk2();
                if !ok || it.next().is_some() || it.nth_back(0).is_some() || it.size_hint().0 != 0 || !ends_f(mk2().0, b) { api.push("iter_last"); }
                else if mk2().0.last().is_some() || mk2().0.count() != 0 { api.push("iter_last"); }
                // exactly len steps from the front, then asked from the back
                let mk3 = || { let mut it = c.values(); for _ in 0..nodes.len() { it.next(); } it };
                if !ends_f(mk3().rev(), b) || mk3().rev().last().is_some() { api.push("iter_last"); }
                // one step from the back, then the rest from the front
                let mk4 = || { let mut it = c.iter(); it.next_back(); it };
                if !ends_f(mk4(), b) { api.push("iter_last"); }
                else if mk4().last().map(|(k, _)| k.tok) != (if nodes.len() >= 2 { Some(lru_first[nodes.len() - 2].1) } else { None }) { api.push("iter_last"); }
            }
            if c.len() != nodes.len() || c.len() != g.len { api.push("len"); }
            if c.is_empty() != nodes.is_empty() { api.push("is_empty"); }
            if c.current_size() != g.current_size || c.max_size() != g.max_size || c.capacity() != g.capacity { api.push("scalars"); }
            if c.peek_lru().map(|(k, v)| (k.id.0, k.tok, v.tok())) != lru_first.first().copied() { api.push("peek_lru"); }
            if c.peek_mru().map(|(k, v)| (k.id.0, k.tok, v.tok())) != lru_first.last().copied() { api.push("peek_mru"); }
            let dbg = format!("{:?}", c);
            let mut want = String::from("{");
            for (i, n) in nodes.iter().rev().enumerate() { if i > 0 { want.push_str(", "); } write!(want, "K{}: V{}", n.kid, n.vtag).unwrap(); }
            want.push('}');
            if dbg != want { api.push("debug"); }
            for id in 0..universe {
                let here = nodes.iter().find(|n| n.kid == id).map(|n| (n.ktok, n.vtok, n.addr));
                if c.contains(&KeyId(id)) != here.is_some() { api.push("contains"); }
                let pe = c.peek_entry(&KeyId(id)).map(|(k, v)| (k.tok, v.tok(), k as *const K as usize));
                match (pe, here) {
                    (None, None) => {}
                    (Some((kt, vt, kaddr)), Some((hk, hv, addr))) => {
                        // the entry a lookup finds must be the very bucket that is linked into the list
                        if kt != hk || vt != hv || kaddr < addr || kaddr >= addr + std::mem::size_of::<usize>() * 3 + std::mem::size_of::<K>() + std::mem::size_of::<V>() { api.push("peek_entry"); }
                    }
                    _ => api.push("peek_entry"),
                }
                let probe = K::probe(id);
                if c.peek(&probe).map(|v| v.tok()) != here.map(|h| h.1) { api.push("peek_owned"); }
                if c.peek(&KeyId(id)).map(|v| v.tok()) != here.map(|h| h.1) { api.push("peek"); }
            }
            let _ = c.hasher();
        }
        api.dedup();
        let fp_after = fingerprint(c);
        let flags = format!("api={};ro={}", if api.is_empty() { "1".to_string() } else { format!("0:{}", api.join("+")) }, (fp_before == fp_after) as u8);
        (state, st, flags)
    }

    pub struct World { pub slots: Vec<Option<Cache>>, pub universe: u32, pub cfg: (usize, usize, u8), pub log: Vec<(usize, Op)> }

    pub struct StepOut { pub res: String, pub visits: String, pub dropped: Vec<u64>, pub hashes: u64, pub calls: String, pub obs_slot: Option<usize> }

    /// F = next(), B = next_back(): the result is reported. f / b = the same step with the result discarded at once and not
    /// reported; a run of k lower-case letters followed by the upper-case letter of the same direction is executed as ONE call
    /// of nth(k) / nth_back(k) (what skip and step_by use), which must behave like those k+1 single steps.
    /// A run l..lL that covers exactly what is left is executed as last(), a final run c..c that covers exactly what is left
    /// as count(): they must behave like the single front steps they stand for (the model reads l as f, L as F, c as f).
    /// `len` = number of entries the iterator started with.
    /// The iterator is owned here so that the by-value trait methods (last, count, fold, collect) are called on the
    /// iterator type itself — through `&mut I` they would resolve to the default implementations and an override on the
    /// cache's iterator types would never run. Returns the iterator unless one of those calls consumed it.
    pub fn run_pat<I: DoubleEndedIterator>(it: I, pat: &str, len: usize, f: &mut dyn FnMut(Option<I::Item>)) -> Option<I> {
        let mut it = it;
        let cs: Vec<char> = pat.chars().collect();
        let mut i = 0;
        let mut used = 0usize;
        while i < cs.len() {
            let ch = cs[i];
            let left = len.saturating_sub(used);
            if ch == 'F' { f(it.next()); i += 1; used += 1; continue; }
            if ch == 'B' { f(it.next_back()); i += 1; used += 1; continue; }
            if ch == 'L' {
                if left <= 1 && i + 1 == cs.len() { f(it.last()); return None; }
                f(it.next()); i += 1; used += 1; continue;
            }
            let mut j = i; while j < cs.len() && cs[j] == ch { j += 1; }
            let k = j - i;
            match ch {
                'l' if j < cs.len() && cs[j] == 'L' => {
                    if k + 1 == left && j + 1 == cs.len() { f(it.last()); return None; }
                    f(it.nth(k));
                    used += k + 1; i = j + 1;
                }
                'c' => {
                    if k == left && j == cs.len() {
                        // count(), fold() and collect() (size_hint-driven preallocation, then next()) must all see exactly what is left
                        let (lo, hi) = it.size_hint();
                        let n = match k % 3 { 0 => it.count(), 1 => it.fold(0usize, |a, x| { drop(x); a + 1 }), _ => { let v: Vec<I::Item> = it.collect(); let n = v.len(); drop(v); n } };
                        if n != k || lo > k || hi.map_or(false, |h| h < k) { f(None); f(None); f(None); }
                        return None;
                    }
                    for _ in 0..k { drop(it.next()); }
                    used += k; i = j;
                }
                'f' | 'b' | 'l' => {
                    let up = if ch == 'b' { 'B' } else { 'F' };
                    if ch != 'l' && j < cs.len() && cs[j] == up {
                        f(if up == 'F' { it.nth(k) } else { it.nth_back(k) });
                        used += k + 1; i = j + 1;
                    } else {
                        for _ in 0..k { if up == 'F' { drop(it.next()); } else { drop(it.next_back()); } }
                        used += k; i = j;
                    }
                }
                _ => { i += 1; }
            }
        }
        Some(it)
    }

    pub fn exec(w: &mut World, slot: usize, op: &Op) -> StepOut {
        let closure_calls = Cell::new(0u32);
        let mut visits = String::new();
        let mut obs_slot = Some(slot);
        reset_counters();
        let res: String = {
            let r = catch_unwind(AssertUnwindSafe(|| -> String {
                use Op::*;
                match op {
                    Clone(dst) => {
                        let src = w.slots[slot].as_ref().expect("clone of empty slot");
                        let cl = src.clone();
                        let log = take_clone_log();
                        assert!(w.slots[*dst].is_none(), "clone into occupied slot");
                        w.slots[*dst] = Some(cl);
                        obs_slot = Some(*dst);
                        let mut s = String::from("clone:");
                        for (a, b) in log { write!(s, "{}>{},", a, b).unwrap(); }
                        return s;
                    }
                    DropC => { let c = w.slots[slot].take(); drop(c); obs_slot = None; return "unit".into(); }
                    IntoIter(kind, pat, forget) => {
                        let c = w.slots[slot].take().expect("into_iter of empty slot");
                        obs_slot = None;
                        let mut items = String::new();
                        match kind {
                            0 => { let n0 = c.len(); let it = c.into_iter();
                                   let it = run_pat(it, pat, n0, &mut |x| match x { None => items.push_str("none,"), Some((k, v)) => { write!(items, "{},", kvs(&k, &v)).unwrap(); std::mem::forget((k, v)); } });
                                   if *forget { if let Some(it) = it { std::mem::forget(it); } } }
                            1 => { let n0 = c.len(); let it = c.into_keys();
                                   let it = run_pat(it, pat, n0, &mut |x| match x { None => items.push_str("none,"), Some(k) => { write!(items, "{},", ks(&k)).unwrap(); std::mem::forget(k); } });
                                   if *forget { if let Some(it) = it { std::mem::forget(it); } } }
                            _ => { let n0 = c.len(); let it = c.into_values();
                                   let it = run_pat(it, pat, n0, &mut |x| match x { None => items.push_str("none,"), Some(v) => { write!(items, "{},", vsk(&v)).unwrap(); std::mem::forget(v); } });
                                   if *forget { if let Some(it) = it { std::mem::forget(it); } } }
                        }
                        return format!("items:{}", items);
                    }
                    _ => {}
                }
                let c = w.slots[slot].as_mut().expect("operation on empty slot");
                match op {
                    Insert(i, kt, kh, vt, vg, vh) => match c.insert(K::new(*i, *kt, *kh), V::mk(*vt, *vg, *vh)) {
                        Ok(None) => "ins_ok:none".to_string(),
                        Ok(Some(o)) => { let s = format!("ins_ok:{}", vs3(&o)); std::mem::forget(o); s }
                        Err(InsertError::EntryTooLarge { key, value, entry_size, max_size }) => {
                            let s = format!("ins_toolarge:{}:{}:{}", kvs(&key, &value), entry_size, max_size); std::mem::forget((key, value)); s }
                    },
                    TryInsert(i, kt, kh, vt, vg, vh) => match c.try_insert(K::new(*i, *kt, *kh), V::mk(*vt, *vg, *vh)) {
                        Ok(()) => "try_ok".to_string(),
                        // every other rejected call goes through the accessors of TryInsertError instead of destructuring it:
                        // entry() / key() / value() must show the very pair that into_entry() then hands back
                        Err(e) if (*kt + *vt) % 2 == 1 => {
                            let variant = match &e { TryInsertError::EntryTooLarge { entry_size, max_size, .. } => format!("try_toolarge:@:{}:{}", entry_size, max_size),
                                TryInsertError::WouldEjectLru { entry_size, free_memory, .. } => format!("try_wouldeject:@:{}:{}", entry_size, free_memory),
                                TryInsertError::OccupiedEntry { .. } => "try_occupied:@".to_string() };
                            let seen = { let (k, v) = e.entry(); (k.tok, v.tok(), e.key().tok, e.value().tok()) };
                            let (k, v) = e.into_entry();
                            let s = if seen == (k.tok, v.tok(), k.tok, v.tok()) { variant.replace('@', &kvs(&k, &v)) } else { "try_badaccessor".to_string() };
                            std::mem::forget((k, v)); s }
                        Err(TryInsertError::EntryTooLarge { key, value, entry_size, max_size }) => {
                            let s = format!("try_toolarge:{}:{}:{}", kvs(&key, &value), entry_size, max_size); std::mem::forget((key, value)); s }
                        Err(TryInsertError::WouldEjectLru { key, value, entry_size, free_memory }) => {
                            let s = format!("try_wouldeject:{}:{}:{}", kvs(&key, &value), entry_size, free_memory); std::mem::forget((key, value)); s }
                        Err(TryInsertError::OccupiedEntry { key, value }) => {
                            let s = format!("try_occupied:{}", kvs(&key, &value)); std::mem::forget((key, value)); s }
                    },
                    Get(i) => match c.get(&KeyId(*i)) { None => "val:none".into(), Some(v) => format!("val:{}", vs3(v)) },
                    GetEntry(i) => okv(c.get_entry(&KeyId(*i))),
                    Peek(i) => match c.peek(&KeyId(*i)) { None => "val:none".into(), Some(v) => format!("val:{}", vs3(v)) },
                    PeekEntry(i) => okv(c.peek_entry(&KeyId(*i))),
                    Contains(i) => format!("bool:{}", c.contains(&KeyId(*i)) as u8),
                    Touch(i) => { c.touch(&KeyId(*i)); "unit".into() }
                    GetLru => okv(c.get_lru()), PeekLru => okv(c.peek_lru()), PeekMru => okv(c.peek_mru()),
                    Remove(i) => match c.remove(&KeyId(*i)) { None => "val:none".into(), Some(v) => { let s = format!("val:{}", vs3(&v)); std::mem::forget(v); s } },
                    RemoveEntry(i) => match c.remove_entry(&KeyId(*i)) { None => "kv:none".into(), Some((k, v)) => { let s = format!("kv:{}", kvs(&k, &v)); std::mem::forget((k, v)); s } },
                    RemoveLru => match c.remove_lru() { None => "kv:none".into(), Some((k, v)) => { let s = format!("kv:{}", kvs(&k, &v)); std::mem::forget((k, v)); s } },
                    RemoveMru => match c.remove_mru() { None => "kv:none".into(), Some((k, v)) => { let s = format!("kv:{}", kvs(&k, &v)); std::mem::forget((k, v)); s } },
                    Mutate(i, nt, nh) => match c.mutate(&KeyId(*i), |v| { closure_calls.set(closure_calls.get() + 1); callback(CB_CLOSURE); v.set(*nt, *nh); 77u8 }) {
                        Ok(None) => "mut_none".to_string(),
                        Ok(Some(r)) => if r == 77 { "mut_ok".into() } else { "mut_badresult".into() },
                        Err(MutateError::EntryTooLarge { key, value, old_entry_size, new_entry_size, max_size }) => {
                            let s = format!("mut_toolarge:{}:{}:{}:{}", kvs(&key, &value), old_entry_size, new_entry_size, max_size); std::mem::forget((key, value)); s }
                    },
                    SetMax(m) => { c.set_max_size(*m); "unit".into() }
                    Retain(mask) => { c.retain(|k, v| { callback(CB_CLOSURE); write!(visits, "{},", kvs(k, v)).unwrap(); (mask >> (k.id.0 % 64)) & 1 == 1 }); "unit".into() }
                    Clear => { c.clear(); "unit".into() }
                    Iter(kind, pat) => {
                        let mut items = String::new();
                        match kind {
                            0 => { run_pat(c.iter(), pat, c.len(), &mut |x| match x { None => items.push_str("none,"), Some((k, v)) => write!(items, "{},", kvs(k, v)).unwrap() }); }
                            1 => { run_pat(c.keys(), pat, c.len(), &mut |x| match x { None => items.push_str("none,"), Some(k) => write!(items, "{},", ks(k)).unwrap() }); }
                            _ => { run_pat(c.values(), pat, c.len(), &mut |x| match x { None => items.push_str("none,"), Some(v) => write!(items, "{},", vsk(v)).unwrap() }); }
                        }
                        format!("items:{}", items)
                    }
                    Drain(pat, forget) => {
                        let mut items = String::new();
                        let n0 = c.len();
                        let d = c.drain();
                        let d = run_pat(d, pat, n0, &mut |x| match x { None => items.push_str("none,"), Some((k, v)) => { write!(items, "{},", kvs(&k, &v)).unwrap(); std::mem::forget((k, v)); } });
                        if *forget { if let Some(d) = d { std::mem::forget(d); } }
                        format!("items:{}", items)
                    }
                    Reserve(n) => { c.reserve(*n); "unit".into() }
                    TryReserve(n, fail) => {
                        if *fail { failalloc::arm(64); }
                        let r = c.try_reserve(*n);
                        failalloc::disarm();
                        match r { Ok(()) => "res_ok".into(), Err(e) => { let s = format!("{:?}", e); if s.contains("CapacityOverflow") { "res_overflow".into() } else { "res_refused".into() } } }
                    }
                    ShrinkTo(n) => { c.shrink_to(*n); "unit".into() }
                    ShrinkToFit => { c.shrink_to_fit(); "unit".into() }
                    Debug => { let s = format!("{:?}", c); format!("dbg:{}", s.replace(' ', "")) }
                    Len => format!("num:{}", c.len()), IsEmpty => format!("bool:{}", c.is_empty() as u8),
                    CurrentSize => format!("num:{}", c.current_size()), MaxSize => format!("num:{}", c.max_size()),
                    Capacity => format!("num:{}", c.capacity()),
                    Clone(_) | DropC | IntoIter(..) => unreachable!(),
                }
            }));
            failalloc::disarm();
            match r { Ok(s) => s, Err(_) => "panic".to_string() }
        };
        let hashes = HASHES.with(|h| h.get());
        let calls = format!("h={};e={};c={};s={};cl={}", hashes, EQS.with(|h| h.get()), CLONES.with(|h| h.get()), SIZES.with(|h| h.get()), closure_calls.get());
        let dropped = take_drops();
        StepOut { res, visits, dropped, hashes, calls, obs_slot }
    }

    pub fn ob_line(w: &World, slot_before_fp: &[(usize, String)], so: &StepOut, op_slot: usize) -> String {
        let (state, st, mut flags) = match so.obs_slot.and_then(|s| w.slots[s].as_ref()) {
            Some(c) => observe(c, w.universe),
            None => ("|0|0|0|0".to_string(), "-".to_string(), "api=1;ro=1".to_string()),
        };
        // every cache other than the one observed must be bit-for-bit what it was
        let mut oth = true;
        for (s, fp) in slot_before_fp {
            if Some(*s) == so.obs_slot && *s == op_slot { continue; }
            match w.slots[*s].as_ref() { Some(c) => if &fingerprint(c) != fp { oth = false; }, None => if *s != op_slot { oth = false; } }
        }
        write!(flags, ";oth={}", oth as u8).unwrap();
        // the cache the operation was called on: is it bit-for-bit what it was? (meaningful for &self operations, also
        // when the operation unwound from a panic in user code)
        let same = slot_before_fp.iter().find(|(s, _)| *s == op_slot).map(|(_, fp)| match w.slots[op_slot].as_ref() {
            Some(c) => &fingerprint(c) == fp, None => false }).unwrap_or(true);
        write!(flags, ";same={}", same as u8).unwrap();
        let dr: Vec<String> = so.dropped.iter().map(|x| x.to_string()).collect();
        format!("OB {}|{}|{}|{}|{}|{}|{}|{}", so.res, state, dr.join(","), so.hashes, so.visits, st, flags, so.calls)
    }

    pub fn do_step(w: &mut World, slot: usize, op: &Op, out: &mut impl std::io::Write) -> bool {
        do_step_inject(w, slot, op, None, out)
    }

    /// inject = Some((kind, nth)): the nth (0-based) user callback of that kind made by this operation panics
    pub fn do_step_inject(w: &mut World, slot: usize, op: &Op, inject: Option<(u8, i64)>, out: &mut impl std::io::Write) -> bool {
        let before: Vec<(usize, String)> = w.slots.iter().enumerate().filter_map(|(i, c)| c.as_ref().map(|c| (i, fingerprint(c)))).collect();
        match inject {
            None => writeln!(out, "OP {} {}", slot, op.line()).unwrap(),
            Some((k, n)) => writeln!(out, "OP {} {} @panic={}:{}", slot, op.line(), kind_name(k), n).unwrap(),
        }
        out.flush().unwrap();     // so that the operation is on record if the implementation crashes the process
        w.log.push((slot, op.clone()));
        if let Some((k, n)) = inject { arm(k, n); }
        let so = exec(w, slot, op);
        disarm();
        let line = ob_line(w, &before, &so, slot);
        writeln!(out, "{}", line).unwrap();
        so.res != "panic" || inject.is_some()
    }

    pub fn kind_name(k: u8) -> &'static str { match k { CB_HASH => "hash", CB_EQ => "eq", CB_CLONE => "clone", CB_SIZE => "size", CB_CLOSURE => "closure", _ => "?" } }
    pub fn kind_code(s: &str) -> Option<u8> { Some(match s { "hash" => CB_HASH, "eq" => CB_EQ, "clone" => CB_CLONE, "size" => CB_SIZE, "closure" => CB_CLOSURE, _ => return None }) }

    pub fn new_cache(w: &mut World, slot: usize, max: usize, cap: usize, hk: u8, out: &mut impl std::io::Write) {
        let e0 = lru_mem::entry_size(&K::probe(0), &V::mk(0, 0, 0));
        writeln!(out, "CFG {} {} {} {} {} {} {} {}", slot, max, cap, hk, e0, std::mem::size_of::<V>(), w.universe, $tag).unwrap();
        reset_counters();
        let c: Cache = ($mk)(max, cap, hk);
        w.slots[slot] = Some(c);
        let so = StepOut { res: "new".into(), visits: String::new(), dropped: vec![], hashes: 0, calls: "h=0;e=0;c=0;s=0;cl=0".into(), obs_slot: Some(slot) };
        let line = ob_line(w, &[], &so, slot);
        writeln!(out, "{}", line).unwrap();
    }

    pub fn finish(w: &mut World, out: &mut impl std::io::Write, leak_rest: bool) {
        for s in 0..w.slots.len() {
            if w.slots[s].is_some() {
                if leak_rest { std::mem::forget(w.slots[s].take()); } else { do_step(w, s, &Op::DropC, out); }
            }
        }
        writeln!(out, "END").unwrap();
    }

    // ---------------------------------------------------------------------------------------------
    // generator
    // ---------------------------------------------------------------------------------------------

    pub fn rand_pat(rng: &mut Rng, len_hint: usize) -> String {
        let n = match rng.below(4) { 0 => rng.below(3), 1 => len_hint as u64 + rng.below(4), _ => rng.below(len_hint as u64 + 3) };
        let mut p: String = (0..n).map(|_| match rng.below(10) { 0 => 'f', 1 => 'b', x if x % 2 == 0 => 'F', _ => 'B' }).collect();
        // sometimes finish with last() or count() over exactly what is left
        let left = len_hint.saturating_sub(p.len());
        if left == 0 && rng.below(5) == 0 { p.push('L'); }
        if left >= 1 && left <= 40 {
            match rng.below(12) { 0 => { for _ in 1..left { p.push('l'); } p.push('L'); }, 1 => { for _ in 0..left { p.push('c'); } }, _ => {} }
        }
        p
    }

    pub fn gen_trace(seed: u64, t: u64, steps: usize, profile: &str, out: &mut impl std::io::Write) {
        let (mut w, alive) = gen_world(seed, t, steps, profile, out);
        finish(&mut w, out, !alive);
    }

    /// generates and runs one trace but leaves the caches alive (the caller finishes or continues)
    pub fn gen_world(seed: u64, t: u64, steps: usize, profile: &str, out: &mut impl std::io::Write) -> (World, bool) {
        NEXT_CLONE_TOK.with(|c| c.set(1_000_000_000 + t * 100_000));
        let mut rng = Rng::seeded(seed, t);
        let e0 = lru_mem::entry_size(&K::probe(0), &V::mk(0, 0, 0));
        if profile == "owniter" {
            // systematic sweep of the consuming iterators: a cache of n = 0..=4 entries; drain on the cache itself, or into_iter /
            // into_keys / into_values on a clone of it; EVERY pattern of next / next_back of length 0..=5 (so every point of
            // consumption from either end, partial, exact and past exhaustion); then dropped or forgotten.
            // Index t enumerates (pattern, n, kind, fin): 63 * 5 * 4 * 2 = 2520 traces.
            let pi = (t % 63) as usize; let n = ((t / 63) % 5) as usize; let kind = ((t / (63 * 5)) % 4) as u8; let forget = (t / (63 * 5 * 4)) % 2 == 1;
            let mut len = 0usize; while (1usize << (len + 1)) - 1 <= pi { len += 1; }
            let bits = pi - ((1usize << len) - 1);
            let pat: String = (0..len).map(|i| if (bits >> i) & 1 == 1 { 'B' } else { 'F' }).collect();
            let mut w = World { slots: vec![None, None, None], universe: 8, cfg: (usize::MAX, 4, 0), log: Vec::new() };
            new_cache(&mut w, 0, usize::MAX, 4, 0, out);
            let mut tok: u64 = t * 1_000_000;
            let mut alive = true;
            for i in 0..n { tok += 2; alive &= do_step(&mut w, 0, &Op::Insert(i as u32, tok - 1, 0, tok, tok, 0), out); if !alive { return (w, alive); } }
            if kind == 3 {
                alive &= do_step(&mut w, 0, &Op::Drain(pat, forget), out);
                if alive { alive &= do_step(&mut w, 0, &Op::Len, out); }
                if alive { tok += 2; alive &= do_step(&mut w, 0, &Op::Insert(7, tok - 1, 0, tok, tok, 0), out); }
            } else {
                alive &= do_step(&mut w, 0, &Op::Clone(1), out);
                if alive { alive &= do_step(&mut w, 1, &Op::IntoIter(kind, pat, forget), out); }
                if alive { alive &= do_step(&mut w, 0, &Op::Len, out); }
            }
            return (w, alive);
        }
        if profile == "clog" {
            // systematic sweep of tombstone-clogged tables: a table of capacity c (every hashbrown capacity up to 112) is filled
            // exactly with consecutive keys (identity or multiplicative hasher: long occupied runs, so removals leave DELETED
            // markers and growth_left stays 0), then k = 0..=c entries are removed (ascending, descending or from the middle),
            // then new keys are inserted / try_inserted and capacity is asked for. Index t enumerates (c, k, order, hasher).
            let caps = [3usize, 7, 14, 28, 56, 112];
            let c = caps[(t % 6) as usize];
            let k = ((t / 6) % (c as u64 + 1)) as usize;
            let order = (t / (6 * 113)) % 3;
            let hk = if (t / (6 * 113 * 3)) % 2 == 0 { 0u8 } else { 3u8 };
            let universe: u32 = 240;
            let mut w = World { slots: vec![None, None, None], universe, cfg: (usize::MAX, c, hk), log: Vec::new() };
            new_cache(&mut w, 0, usize::MAX, c, hk, out);
            let mut tok: u64 = t * 1_000_000;
            let mut alive = true;
            for i in 0..c { tok += 2; alive &= do_step(&mut w, 0, &Op::Insert(i as u32, tok - 1, 0, tok, tok, 0), out); if !alive { return (w, alive); } }
            for j in 0..k {
                let id = match order { 0 => j, 1 => c - 1 - j, _ => (c / 4 + j) % c } as u32;
                alive &= do_step(&mut w, 0, &Op::Remove(id), out); if !alive { return (w, alive); }
            }
            let tail: Vec<Op> = vec![
                { tok += 2; Op::Insert(c as u32 + 3, tok - 1, 0, tok, tok, 0) }, Op::Capacity,
                { tok += 2; Op::TryInsert(c as u32 + 9, tok - 1, 0, tok, tok, 0) },
                { tok += 2; Op::Insert(c as u32 + 17, tok - 1, 0, tok, tok, 0) },
                Op::Reserve(1), { tok += 2; Op::Insert(c as u32 + 33, tok - 1, 0, tok, tok, 0) }, Op::ShrinkToFit,
                { tok += 2; Op::Insert(c as u32 + 41, tok - 1, 0, tok, tok, 0) }, Op::Iter(0, "FB".into())];
            for op in tail.iter().take(steps.max(1)) { alive &= do_step(&mut w, 0, op, out); if !alive { break; } }
            return (w, alive);
        }
        let churn = profile == "churn";
        let hk = if churn { rng.pick(&[0u8, 0, 3, 4, 2, 5]) } else { rng.below(6) as u8 };
        let big = profile == "big" || (profile == "mix" && t % 7 == 3);
        let universe: u32 = if churn { 400 } else if big { 200 } else if t % 3 == 0 { 40 } else { 6 };
        let max0: usize = if churn { if rng.below(3) == 0 { e0 * 120 } else { usize::MAX } } else if big { match rng.below(3) { 0 => usize::MAX, 1 => e0 * 150, _ => e0 * 40 + 13 } } else {
            match rng.below(8) { 0 => 0, 1 => e0 * 3, 2 => e0 * 4 + 37, 3 | 4 => usize::MAX, _ => e0 * (1 + rng.below(8) as usize) + rng.below(50) as usize } };
        let cap0 = if churn { rng.pick(&[28usize, 56, 100, 14, 112]) } else { rng.pick(&[0usize, 0, 1, 3, 4, 7, 8, 15, 28, 29, 57, 100]) };
        let mut w = World { slots: vec![None, None, None], universe, cfg: (max0, cap0, hk), log: Vec::new() };
        new_cache(&mut w, 0, max0, cap0, hk, out);
        let mut tok: u64 = t * 1_000_000;
        let mut alive = true;
        for _ in 0..steps {
            if !alive { break; }
            // choose the slot: mostly the main cache, sometimes a live clone
            let live: Vec<usize> = (0..3).filter(|s| w.slots[*s].is_some()).collect();
            if live.is_empty() { break; }
            let slot = if rng.below(5) == 0 { rng.pick(&live) } else { live[0] };
            let (cur, maxs, clen) = { let c = w.slots[slot].as_ref().unwrap(); (c.current_size(), c.max_size(), c.len()) };
            let ccap = w.slots[slot].as_ref().unwrap().capacity();
            // capacity arguments at the boundaries of the current table: exactly the room left, one more, the length, the capacity
            let room = ccap.saturating_sub(clen);
            let id = rng.below(universe as u64) as u32;
            let kh = rng.pick(&[0usize, 0, 5]);
            let mut vh = rng.pick(&[0usize, 1, 17, 40, 200]);
            let free = maxs.saturating_sub(cur);
            match rng.below(10) {
                0 if free >= e0 + kh && free < 1 << 40 => vh = free - e0 - kh,
                1 if free >= e0 + kh && free < 1 << 40 => vh = free - e0 - kh + 1,
                2 if maxs >= e0 + kh && maxs < 1 << 40 => vh = maxs - e0 - kh,
                3 if maxs >= e0 + kh && maxs < 1 << 40 => vh = maxs - e0 - kh + 1,
                4 | 5 if maxs == usize::MAX && rng.below(2) == 0 => vh = (1usize << 63) - e0 - kh - rng.below(3) as usize,
                _ => {}
            }
            if churn {
                // tombstone-heavy churn around a full table: fill with consecutive keys, remove runs from the middle of dense
                // regions, re-insert, and ask for capacity in between
                let c = w.slots[0].as_ref().unwrap();
                let (cap, clen) = (c.capacity(), c.len());
                let keys: Vec<u32> = c.keys().map(|k| k.id.0).collect();
                let next_id = (w.log.len() as u32 * 7 + 1) % universe;
                let draining = (w.log.len() / 45) % 3 == 1;      // periodic phases that empty most of the table one removal at a time
                let op = match rng.below(100) {
                    _ if clen < cap && w.log.len() < cap0 + 8 => { tok += 2; Op::Insert((w.log.len() as u32) % universe, tok - 1, 0, tok, tok, 0) }
                    0..=84 if draining && clen > 2 => Op::Remove(keys[rng.below(keys.len() as u64) as usize]),
                    0..=29 => { tok += 2; Op::Insert(next_id, tok - 1, 0, tok, tok, rng.pick(&[0usize, 0, 8])) }
                    30..=54 if !keys.is_empty() => Op::Remove(keys[rng.below(keys.len() as u64) as usize]),
                    55..=60 if !keys.is_empty() => { let k0 = keys[rng.below(keys.len() as u64) as usize]; Op::Retain(!(0x1Fu64 << (k0 % 59))) }
                    61..=62 => Op::Retain((1u64 << rng.below(64)) | (1u64 << rng.below(64)) | (1u64 << rng.below(64))),     // empties most of the table: tombstones everywhere
                    63..=66 => Op::Reserve(rng.pick(&[1usize, 2, 8, 30, 68])),
                    67..=69 => Op::TryReserve(rng.pick(&[1usize, 4, 20, 64]), false),
                    70..=72 => Op::ShrinkTo(rng.pick(&[0usize, 26, 27, 50, 100])),
                    73 => Op::ShrinkToFit,
                    74..=77 => Op::RemoveLru,
                    78..=80 if !keys.is_empty() => Op::Get(keys[rng.below(keys.len() as u64) as usize]),
                    81..=83 => { tok += 2; Op::TryInsert(next_id, tok - 1, 0, tok, tok, 0) }
                    84 => Op::Capacity,
                    85..=86 if !keys.is_empty() => { tok += 2; Op::Mutate(keys[rng.below(keys.len() as u64) as usize], tok, rng.pick(&[0usize, 8, 40])) }
                    87 => Op::Iter(0, "FBFB".into()),
                    _ => { tok += 2; Op::Insert(next_id, tok - 1, 0, tok, tok, 0) }
                };
                alive &= do_step(&mut w, 0, &op, out);
                continue;
            }
            let r = rng.below(if big { 60 } else { 100 });
            let op = match r {
                0..=17 => { tok += 2; Op::Insert(id, tok - 1, kh, tok, tok, vh) }
                18..=23 => { tok += 2; Op::TryInsert(id, tok - 1, kh, tok, tok, vh) }
                24..=26 => Op::Get(id), 27 => Op::GetEntry(id), 28 => Op::Peek(id), 29 => Op::PeekEntry(id),
                30 => Op::Contains(id), 31 | 32 => Op::Touch(id),
                33 | 34 => Op::RemoveEntry(id), 35 | 36 => Op::Remove(id), 37 => Op::RemoveLru, 38 => Op::RemoveMru,
                39 => Op::GetLru, 40 => Op::PeekLru, 41 => Op::PeekMru,
                42..=49 => { tok += 2;
                    // mutate: bias towards present keys and towards growth at a full cache
                    let c = w.slots[slot].as_ref().unwrap();
                    let target = if clen > 0 && rng.below(4) != 0 { let n = rng.below(clen as u64) as usize; c.keys().nth(n).map(|k| k.id.0).unwrap_or(id) } else { id };
                    let cur_v = c.peek(&KeyId(target)).map(|v| v.heapv()).unwrap_or(0);
                    let nh = match rng.below(8) { 0 => cur_v, 1 => cur_v.saturating_sub(1 + rng.below(20) as usize), 2 => cur_v.saturating_add(1 + rng.below(40) as usize),
                        3 => cur_v.saturating_add(free.min(1 << 40)), 4 => cur_v.saturating_add(free.min(1 << 40)).saturating_add(1),
                        5 if maxs < 1 << 40 => maxs, 6 => cur_v.saturating_add(10), _ => vh };
                    Op::Mutate(target, tok, nh) }
                50 | 51 => { let m = match rng.below(7) { 0 => cur, 1 => cur.saturating_sub(1), 2 => cur.saturating_add(1), 3 => 0, 4 => usize::MAX,
                        5 => cur / 2, _ => e0 * rng.below(6) as usize + rng.below(30) as usize }; Op::SetMax(m) }
                52 | 53 => Op::Retain(match rng.below(5) { 0 => 0, 1 => u64::MAX, 2 => 0x5555_5555_5555_5555, _ => rng.next() }),
                54 => Op::Iter(rng.below(3) as u8, rand_pat(&mut rng, clen)),
                55 => Op::Drain(rand_pat(&mut rng, clen), false),
                56 => Op::TryReserve(rng.pick(&[0usize, 1, 5, 40, usize::MAX, usize::MAX / 2, 1 << 40, room, room + 1, room.saturating_sub(1)]), rng.below(3) == 0),
                57 => Op::ShrinkTo(rng.pick(&[0usize, 1, 4, 26, 27, 100, usize::MAX, usize::MAX / 2, clen, clen + 1, ccap, ccap.saturating_sub(1), ccap / 2, 3, 7, 14, 15, 28, 29])),
                58 => Op::ShrinkToFit,
                59 => Op::Reserve(if rng.below(40) == 0 { rng.pick(&[usize::MAX, usize::MAX / 2 + 1]) } else { rng.pick(&[0usize, 1, 7, 30, room, room + 1]) }),
                60 => Op::Clear,
                61 => Op::Debug, 62 => Op::Len, 63 => Op::IsEmpty, 64 => Op::CurrentSize, 65 => Op::MaxSize, 66 => Op::Capacity,
                67..=69 => { // clone into a free slot (dropping an old clone first)
                    let dst = if slot == 1 { 2 } else { 1 };
                    if w.slots[dst].is_some() { alive &= do_step(&mut w, dst, &Op::DropC, out); }
                    Op::Clone(dst) }
                70 => if slot != 0 { Op::IntoIter(rng.below(3) as u8, rand_pat(&mut rng, clen), false) } else { Op::Iter(0, rand_pat(&mut rng, clen)) },
                71 => if slot != 0 { Op::DropC } else { Op::Len },
                72 => Op::Iter(rng.below(3) as u8, rand_pat(&mut rng, clen)),
                73 => Op::Drain(rand_pat(&mut rng, clen), profile == "forget" || rng.below(4) == 0),
                74 => if slot != 0 { Op::IntoIter(rng.below(3) as u8, rand_pat(&mut rng, clen), true) } else { Op::PeekLru },
                75 => Op::TryReserve(rng.pick(&[3usize, 9, 60, 500]), true),
                _ => { tok += 2; Op::Insert(id, tok - 1, kh, tok, tok, vh) }
            };
            // try_reserve(huge) without injected failure would ask the real allocator for terabytes: keep to overflow values
            let op = match op { Op::TryReserve(n, false) if n >= 1 << 30 && n < usize::MAX / 2 => Op::TryReserve(n, true), o => o };
            alive &= do_step(&mut w, slot, &op, out);
        }
        (w, alive)
    }

    pub fn replay(path: &str, out: &mut impl std::io::Write) {
        let f = std::io::BufReader::new(std::fs::File::open(path).expect("open replay file"));
        let mut w = World { slots: vec![None, None, None], universe: 6, cfg: (0, 0, 0), log: Vec::new() };
        let mut alive = true;
        for line in f.lines() {
            let line = line.unwrap();
            let ws: Vec<&str> = line.split_whitespace().collect();
            match ws.as_slice() {
                ["CFG", slot, max, cap, hk, _e, _vs, uni, ..] => {
                    let slot: usize = slot.parse().unwrap();
                    if slot == 0 { for s in 0..3 { if w.slots[s].is_some() { std::mem::forget(w.slots[s].take()); } } alive = true; }
                    w.universe = uni.parse().unwrap();
                    new_cache(&mut w, slot, max.parse().unwrap(), cap.parse().unwrap(), hk.parse().unwrap(), out);
                }
                ["OP", slot, rest @ ..] => {
                    if !alive { continue; }
                    let slot: usize = slot.parse().unwrap();
                    let (rest, inject) = match rest.last() {
                        Some(l) if l.starts_with("@panic=") => {
                            let spec = &l[7..]; let mut it = spec.split(':');
                            let k = it.next().and_then(kind_code); let n = it.next().and_then(|x| x.parse::<i64>().ok());
                            (&rest[..rest.len() - 1], match (k, n) { (Some(k), Some(n)) => Some((k, n)), _ => None })
                        }
                        _ => (rest, None),
                    };
                    let op = Op::parse(rest).unwrap_or_else(|| panic!("bad op line: {}", line));
                    if w.slots[slot].is_none() { continue; }
                    alive &= do_step_inject(&mut w, slot, &op, inject, out);
                }
                ["END"] => { for s in 0..3 { if w.slots[s].is_some() { std::mem::forget(w.slots[s].take()); } } writeln!(out, "END").unwrap(); }
                _ => {}
            }
        }
    }


    /// Exhaustive small-scope enumeration: EVERY sequence of `depth` operations over a small alphabet
    /// (3 keys x 3 value sizes, the limit set so that two large or three small entries fit), each run as its
    /// own trace from an empty cache. alphabet 0 = full (about 35 operations), 1 = reduced (about 14).
    pub fn exhaust(depth: usize, alphabet: u8, hk: u8, out: &mut impl std::io::Write) -> u64 {
        let e0 = lru_mem::entry_size(&K::probe(0), &V::mk(0, 0, 0));
        let sizes: [usize; 3] = [0, 8, e0 + 8];
        let max0 = 3 * e0 + 16;                       // three small entries fit exactly with 16 to spare; a large one takes two slots
        let mut ops: Vec<Op> = Vec::new();
        for k in 0..3u32 {
            for (i, vh) in sizes.iter().enumerate() { if alphabet == 0 || i != 1 { ops.push(Op::Insert(k, 0, 0, 0, 0, *vh)); } }
            ops.push(Op::Get(k));
            if alphabet == 0 { ops.push(Op::Remove(k)); ops.push(Op::Peek(k)); ops.push(Op::TryInsert(k, 0, 0, 0, 0, 8)); }
            ops.push(Op::Mutate(k, 0, e0 + 8));
            if alphabet == 0 { ops.push(Op::Mutate(k, 0, 0)); }
        }
        ops.push(Op::RemoveLru); ops.push(Op::SetMax(2 * e0)); 
        if alphabet == 0 {
            ops.push(Op::GetLru); ops.push(Op::RemoveMru); ops.push(Op::SetMax(max0)); ops.push(Op::Retain(0b101)); ops.push(Op::Iter(0, "FBB".into()));
            ops.push(Op::Drain("F".into(), false)); ops.push(Op::Clear); ops.push(Op::ShrinkToFit); ops.push(Op::Reserve(5)); ops.push(Op::Mutate(1, 0, 4 * e0));
        }
        let n = ops.len();
        let total = (n as u64).pow(depth as u32);
        let mut idx = vec![0usize; depth];
        let mut count = 0u64;
        loop {
            let mut w = World { slots: vec![None, None, None], universe: 3, cfg: (max0, 0, hk), log: Vec::new() };
            new_cache(&mut w, 0, max0, 0, hk, out);
            let mut tok = 10u64;
            for d in 0..depth {
                let op = match &ops[idx[d]] {
                    Op::Insert(k, _, _, _, _, vh) => { tok += 2; Op::Insert(*k, tok - 1, 0, tok, tok, *vh) }
                    Op::TryInsert(k, _, _, _, _, vh) => { tok += 2; Op::TryInsert(*k, tok - 1, 0, tok, tok, *vh) }
                    Op::Mutate(k, _, vh) => { tok += 2; Op::Mutate(*k, tok, *vh) }
                    o => o.clone(),
                };
                if !do_step(&mut w, 0, &op, out) { break; }
            }
            finish(&mut w, out, false);
            count += 1;
            // odometer
            let mut d = depth;
            loop {
                if d == 0 { return count; }
                d -= 1;
                idx[d] += 1;
                if idx[d] < n { break; }
                idx[d] = 0;
            }
            if count >= total { return count; }
        }
    }

    }
  };
}
