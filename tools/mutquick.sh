#!/bin/sh
# mutquick.sh <patch.diff> [props...]: try a seeded defect on a SCRATCH copy of the repository (/tmp/repo-clean, a
# worktree of /repo's HEAD) with a scratch copy of the harness — /repo itself is not touched. For quick experiments;
# the recorded results come from tools/seedtest.py, which applies the patch to /repo as the protocol says.
set -e
PATCH="$1"; shift
[ -d /tmp/repo-clean ] || git -C /repo worktree add -q --detach /tmp/repo-clean HEAD
git -C /tmp/repo-clean checkout -q -- . ; git -C /tmp/repo-clean clean -fdq -- src
rm -rf /tmp/hclean; cp -r /verif/harness /tmp/hclean; sed -i 's#path = "/repo"#path = "/tmp/repo-clean"#' /tmp/hclean/Cargo.toml
[ "$PATCH" = "none" ] || git -C /tmp/repo-clean apply "$PATCH"
export VERIF_REPO=/tmp/repo-clean VERIF_HARNESS=/tmp/hclean VERIF_TARGET=/tmp/hclean-target VERIF_SEED=${VERIF_SEED:-7}
cd /verif
for p in ${@:-C01 C02 C03 C04 C05 C06 C07 C10 C11 C12 C13 C14 C15 C16 C17 C19 C20}; do
  python3 tools/check.py $p 2>&1 | grep -E "^(OK|VIOLATION|KNOWN)" | cut -c1-170 | sed "s/^/$p: /" | head -4
done
git -C /tmp/repo-clean checkout -q -- .
