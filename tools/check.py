#!/usr/bin/env python3
"""check.py <property> [--tier quick|thorough] [--replay FILE]

One check = (1) the property's Coq theorems re-checked (make + coqc on Properties/<id>.v, audit of
assumptions and forbidden vernacular), (2) the correspondence between the Coq models and /repo's
current working tree (harness rebuilt from /repo, traces run on the real crate, extracted models
and monitors run on the observations), (3) a verdict per the protocol in DESIGN.md section 5.
Exit 0 = held on everything explored; exit 1 + "VIOLATION property=<id> replay=<path>" otherwise.
"""
import sys, os, json, time, hashlib, subprocess, fcntl, re, glob, shutil, concurrent.futures

ROOT = os.path.dirname(os.path.dirname(os.path.abspath(__file__)))
sys.path.insert(0, os.path.join(ROOT, 'tools'))
CACHE = os.path.join(ROOT, '.cache')
# overrides for experiments on a scratch copy of the repository (seeded defects): the registered commands never set them
REPO = os.environ.get('VERIF_REPO', '/repo')
HARNESS = os.environ.get('VERIF_HARNESS', os.path.join(ROOT, 'harness'))
TARGET = os.environ.get('VERIF_TARGET', os.path.join(CACHE, 'target'))
ENV = dict(os.environ, CARGO_NET_OFFLINE='true', CARGO_TARGET_DIR=TARGET)

from props import PROPS, TRUSTED_BASE, ALLOWED_AXIOMS    # per-property configuration

def target_dir(prof):
    return TARGET if prof == 'debug' else TARGET + '-rel'
def exe_path(prof, binary):
    return os.path.join(target_dir(prof), prof, binary)

def sh(cmd, timeout=1800, cwd=ROOT, env=ENV, stdin=None, stdout=subprocess.PIPE):
    p = subprocess.run(cmd, cwd=cwd, env=env, stdin=stdin, stdout=stdout, stderr=subprocess.STDOUT,
                       timeout=timeout, shell=isinstance(cmd, str), text=(stdout == subprocess.PIPE))
    return p.returncode, (p.stdout if stdout == subprocess.PIPE else '')

def sha_files(paths):
    h = hashlib.sha256()
    for p in sorted(paths):
        h.update(p.encode()); h.update(b'\0')
        with open(p, 'rb') as f: h.update(f.read())
    return h.hexdigest()[:16]

def files_under(d, exts):
    out = []
    for base, dirs, fs in os.walk(d):
        dirs[:] = [x for x in dirs if x not in ('target', '.git', '.cache')]
        for f in fs:
            if f.endswith(exts): out.append(os.path.join(base, f))
    return out

class Lock:
    def __init__(self, name): self.path = os.path.join(CACHE, name + '.lock')
    def __enter__(self):
        os.makedirs(CACHE, exist_ok=True)
        self.f = open(self.path, 'w'); fcntl.flock(self.f, fcntl.LOCK_EX); return self
    def __exit__(self, *a): fcntl.flock(self.f, fcntl.LOCK_UN); self.f.close()

# ------------------------------------------------------------------------------------------------
# proof side
# ------------------------------------------------------------------------------------------------
FORBIDDEN = re.compile(r'\b(Admitted|admit|Axiom|Axioms|Parameter|Parameters|Conjecture|Conjectures|Unset\s+Guard|bypass_check|Admit\s+Obligations|type-in-type|impredicative-set|Unset\s+Positivity|Unset\s+Universe)\b')

def strip_comments(src):
    out = []; depth = 0; i = 0
    while i < len(src):
        if src.startswith('(*', i): depth += 1; i += 2
        elif src.startswith('*)', i) and depth > 0: depth -= 1; i += 2
        else:
            if depth == 0: out.append(src[i])
            i += 1
    return ''.join(out)

def coq_build():
    """full .vo build of the development (no-op when nothing changed); returns (ok, log)"""
    with Lock('coq'):
        coq = os.path.join(ROOT, 'coq')
        if (not os.path.exists(os.path.join(coq, 'Makefile')) or
                os.path.getmtime(os.path.join(coq, 'Makefile')) < os.path.getmtime(os.path.join(coq, '_CoqProject'))):
            rc, out = sh('coq_makefile -f _CoqProject -o Makefile', cwd=coq)
            if rc != 0: return False, out
        rc, out = sh('timeout 3000 make -j16 -k', cwd=coq, timeout=3100)
        return rc == 0, out

def coq_cone(vfile):
    """the .v files Properties/<id>.v transitively requires (inside the development)"""
    coq = os.path.join(ROOT, 'coq')
    seen = []; todo = [vfile]
    while todo:
        f = todo.pop()
        if f in seen or not os.path.exists(os.path.join(coq, f)): continue
        seen.append(f)
        src = strip_comments(open(os.path.join(coq, f)).read())
        for m in re.finditer(r'Require\s+(?:Import\s+|Export\s+)?([\w.\s]+?)\.(?=\s)', src):
            for name in m.group(1).split():
                if name.startswith('LruV.'):
                    todo.append(name[len('LruV.'):].replace('.', '/') + '.v')
    return seen

def proof_side(pid, tier='quick'):
    cfg = PROPS[pid]
    res = dict(ok=True, problems=[], theorems=[], obligations=0, discharged=0, axioms=[], files=[])
    ok, log = coq_build()
    coq = os.path.join(ROOT, 'coq')
    vfile = 'Properties/%s.v' % pid
    if not os.path.exists(os.path.join(coq, vfile)):
        res['ok'] = False; res['problems'].append('missing ' + vfile); return res
    cone = coq_cone(vfile)
    res['files'] = cone
    vo_missing = [f for f in cone if not os.path.exists(os.path.join(coq, f[:-2] + '.vo'))]
    if vo_missing:
        res['ok'] = False
        first_err = ''
        m = re.search(r'File "([^"]+)", line (\d+)[^\n]*\n(Error[^\n]*(?:\n[^\n]+){0,6})', log)
        if m: first_err = '%s:%s %s' % (m.group(1), m.group(2), m.group(3).replace('\n', ' ')[:400])
        res['problems'].append('proof obligation no longer checks: %s not compiled (%s)' % (', '.join(vo_missing), first_err))
    # audit: forbidden vernacular anywhere in the development
    for f in files_under(coq, ('.v',)):
        src = strip_comments(open(f).read())
        m = FORBIDDEN.search(src)
        if m:
            res['ok'] = False; res['problems'].append('forbidden vernacular %r in %s' % (m.group(0), os.path.relpath(f, coq)))
    # obligations in the cone
    n_obl = 0
    for f in cone:
        src = strip_comments(open(os.path.join(coq, f)).read())
        n_obl += len(re.findall(r'^\s*(?:Local\s+|Global\s+)?(?:Theorem|Lemma|Corollary|Example|Fact|Proposition|Remark)\s', src, re.M))
    res['obligations'] = n_obl
    res['discharged'] = 0 if vo_missing else n_obl
    if not vo_missing:
        # re-run the property file on its own: statements pinned by Check, assumptions printed
        os.makedirs(os.path.join(CACHE, 'pa'), exist_ok=True)
        rc, out = sh('timeout 600 coqc -Q . LruV -o %s %s' % (os.path.join(CACHE, 'pa', pid + '.vo'), vfile), cwd=coq)
        if rc != 0:
            res['ok'] = False; res['problems'].append('coqc %s failed: %s' % (vfile, out[-400:]))
        src = strip_comments(open(os.path.join(coq, vfile)).read())
        thms = re.findall(r'^\s*(?:Theorem|Corollary)\s+(\w+)', src, re.M)
        res['theorems'] = thms
        n_pa = len(re.findall(r'Print Assumptions', src))
        closed = out.count('Closed under the global context')
        axioms = []
        for m in re.finditer(r'Axioms:\n((?:.+\n)+?)(?=\S|\Z)', out): pass
        if 'Axioms:' in out:
            for line in out.split('Axioms:')[1:]:
                for l in line.split('\n')[1:]:
                    mm = re.match(r'^([\w.\']+)\s*:', l)
                    if mm: axioms.append(mm.group(1))
                    elif l and not l.startswith(' '): break
        res['axioms'] = sorted(set(axioms))
        bad = [a for a in res['axioms'] if a not in ALLOWED_AXIOMS]
        if bad: res['ok'] = False; res['problems'].append('theorem depends on non-allow-listed axioms: ' + ', '.join(bad))
        if n_pa == 0 or closed + (1 if axioms else 0) < 1:
            res['ok'] = False; res['problems'].append('no Print Assumptions output for ' + vfile)
        missing = [t for t in cfg.get('theorems', []) if t not in thms]
        if missing: res['ok'] = False; res['problems'].append('property theorem(s) missing from %s: %s' % (vfile, ', '.join(missing)))
        res['print_assumptions'] = dict(commands=n_pa, closed=closed)
        if tier == 'thorough':
            # independent re-check of the compiled property file and everything it depends on
            rc, out = sh('timeout 1500 coqchk -silent -o -Q . LruV LruV.Properties.%s' % pid, cwd=coq, timeout=1600)
            ax = re.search(r'\* Axioms:\s*(.*?)\n\s*\n', out + '\n\n', re.S)
            res['coqchk'] = dict(exit=rc, axioms=(ax.group(1).strip() if ax else out[-300:]))
            if rc != 0 or not ax or ax.group(1).strip() != '<none>':
                res['ok'] = False; res['problems'].append('coqchk -o on Properties/%s.vo: %s' % (pid, (ax.group(1).strip() if ax else out[-300:])))
    return res

# ------------------------------------------------------------------------------------------------
# correspondence side
# ------------------------------------------------------------------------------------------------
def build_tools():
    """harness (debug + release) from /repo's working tree, extracted model + driver"""
    with Lock('build'):
        problems = []
        t0 = time.time()
        # the debug and the release build run side by side, each in its own target directory
        def _build(prof):
            env = dict(ENV, CARGO_TARGET_DIR=target_dir('release' if prof else 'debug'))
            return prof, sh('timeout 1500 cargo build --offline %s 2>&1' % prof, cwd=HARNESS, timeout=1600, env=env)
        with concurrent.futures.ThreadPoolExecutor(max_workers=2) as ex:
            for prof, (rc, out) in ex.map(_build, ('', '--release')):
                if rc != 0: problems.append('harness build failed (%s): %s' % (prof or 'debug', out[-1500:]))
        ml = os.path.join(ROOT, 'ocaml')
        binp = os.path.join(ROOT, 'bin', 'modelrun')
        srcs = [os.path.join(ml, x) for x in ('model.ml', 'model.mli', 'driver.ml')]
        if not all(os.path.exists(s) for s in srcs):
            problems.append('extracted model missing (Extract.v did not compile)')
        elif not os.path.exists(binp) or any(os.path.getmtime(s) > os.path.getmtime(binp) for s in srcs):
            os.makedirs(os.path.join(ROOT, 'bin'), exist_ok=True)
            rc, out = sh('ocamlfind ocamlopt -O2 -w -a -package zarith -linkpkg model.mli model.ml driver.ml -o ../bin/modelrun', cwd=ml)
            if rc != 0: problems.append('modelrun build failed: ' + out[-800:])
        return problems, time.time() - t0

JOB_TIMEOUT = [90]

def plan(tier, seed):
    """list of (name, profile, binary, args) trace jobs"""
    JOB_TIMEOUT[0] = int(os.environ.get('VERIF_JOB_TIMEOUT', 300 if tier == 'quick' else 2400))
    jobs = []
    for f in sorted(glob.glob(os.path.join(ROOT, 'corpus', '*.trace'))):
        b = os.path.basename(f)[:-6]
        jobs.append(('corpus-%s-dbg' % b, 'debug', 'cache_trace', ['replay', f]))
        jobs.append(('corpus-%s-rel' % b, 'release', 'cache_trace', ['replay', f]))
    if tier == 'quick':
        jobs += [('mix-dbg', 'debug', 'cache_trace', ['gen', str(seed), '250', '60', 'mix']),
                 ('mix-rel', 'release', 'cache_trace', ['gen', str(seed + 1), '500', '60', 'mix']),
                 ('big-rel', 'release', 'cache_trace', ['gen', str(seed + 2), '16', '500', 'big']),
                 ('forget-rel', 'release', 'cache_trace', ['gen', str(seed + 3), '150', '40', 'forget']),
                 ('churn-rel', 'release', 'cache_trace', ['gen', str(seed + 4), '30', '600', 'churn']),
                 ('clog-rel', 'release', 'cache_trace', ['gen', '0', '700', '4', 'clog']),
                 # every point of consumption of the consuming iterators (drain, into_iter, into_keys, into_values), from either end, dropped or forgotten
                 ('owniter-rel', 'release', 'cache_trace', ['gen', '0', '2520', '1', 'owniter']),
                 # other instantiations of the key / value / hasher types: key without Drop impl, value without Drop impl, default hasher and hasher-less constructors
                 ('mix-pd-rel', 'release', 'cache_trace', ['gen', str(seed + 5), '150', '50', 'mix', 'pd']),
                 ('mix-dp-rel', 'release', 'cache_trace', ['gen', str(seed + 6), '150', '50', 'mix', 'dp']),
                 ('mix-df-dbg', 'debug', 'cache_trace', ['gen', str(seed + 7), '150', '50', 'mix', 'df']),
                 ('mix-dn-rel', 'release', 'cache_trace', ['gen', str(seed + 8), '150', '50', 'mix', 'dn']),
                 ('exh2-dbg', 'debug', 'cache_trace', ['exhaust', '2', '0', '1']),
                 ('panic-dbg', 'debug', 'panic_trace', [str(seed), '10', '6', '16']),
                 ('panic-rel', 'release', 'panic_trace', [str(seed + 1), '14', '9', '16']),
                 ('panic-pd-rel', 'release', 'panic_trace', [str(seed + 2), '4', '7', '12', 'pd']),
                 ('panic-dp-rel', 'release', 'panic_trace', [str(seed + 3), '4', '7', '12', 'dp']),
                 ('panic-dn-dbg', 'debug', 'panic_trace', [str(seed + 4), '4', '7', '12', 'dn'])]
    else:
        jobs += [('exh3-h0-rel', 'release', 'cache_trace', ['exhaust', '3', '0', '0']), ('exh3-h1-rel', 'release', 'cache_trace', ['exhaust', '3', '0', '1']),
                 ('exh4-h0-rel', 'release', 'cache_trace', ['exhaust', '4', '1', '0']), ('exh4-h1-dbg', 'debug', 'cache_trace', ['exhaust', '4', '1', '1'])]
        jobs.append(('clog-rel', 'release', 'cache_trace', ['gen', '0', '4100', '9', 'clog']))
        jobs.append(('clog-dbg', 'debug', 'cache_trace', ['gen', '0', '700', '9', 'clog']))
        jobs.append(('owniter-dbg', 'debug', 'cache_trace', ['gen', '0', '2520', '1', 'owniter']))
        for ty in ('pd', 'dp', 'dn'):
            jobs.append(('owniter-%s-rel' % ty, 'release', 'cache_trace', ['gen', '0', '2520', '1', 'owniter', ty]))
        for ty in ('pd', 'dp', 'df', 'dn'):
            jobs.append(('mix-%s-rel' % ty, 'release', 'cache_trace', ['gen', str(seed * 100 + 95), '3000', '70', 'mix', ty]))
            jobs.append(('churn-%s-rel' % ty, 'release', 'cache_trace', ['gen', str(seed * 100 + 96), '60', '700', 'churn', ty]))
            jobs.append(('forget-%s-dbg' % ty, 'debug', 'cache_trace', ['gen', str(seed * 100 + 97), '600', '40', 'forget', ty]))
        for i in range(10):
            jobs.append(('mix-rel-%d' % i, 'release', 'cache_trace', ['gen', str(seed * 100 + i), '4000', '80', 'mix']))
        for i in range(4):
            jobs.append(('mix-dbg-%d' % i, 'debug', 'cache_trace', ['gen', str(seed * 100 + 20 + i), '1500', '80', 'mix']))
            jobs.append(('big-rel-%d' % i, 'release', 'cache_trace', ['gen', str(seed * 100 + 40 + i), '120', '800', 'big']))
            jobs.append(('forget-rel-%d' % i, 'release', 'cache_trace', ['gen', str(seed * 100 + 60 + i), '2000', '40', 'forget']))
            jobs.append(('churn-rel-%d' % i, 'release', 'cache_trace', ['gen', str(seed * 100 + 70 + i), '200', '800', 'churn']))
            jobs.append(('panic-rel-%d' % i, 'release', 'panic_trace', [str(seed * 100 + 80 + i), '120', '10', '40']))
            jobs.append(('panic-dbg-%d' % i, 'debug', 'panic_trace', [str(seed * 100 + 90 + i), '60', '8', '40']))
            jobs.append(('panic-%s-rel-%d' % (('pd', 'dp', 'dn', 'pd')[i], i), 'release', 'panic_trace', [str(seed * 100 + 85 + i), '40', '8', '30', ('pd', 'dp', 'dn', 'pd')[i]]))
    return jobs

def run_job(job, rundir, variant='fixed'):
    name, prof, binary, args = job
    stream = os.path.join(rundir, name + '.stream')
    outp = os.path.join(rundir, name + '.model')
    exe = exe_path(prof, binary)
    class _R: pass
    with open(stream, 'w') as f:
        try:
            rc = subprocess.run([exe] + args, stdout=f, stderr=subprocess.PIPE, timeout=JOB_TIMEOUT[0])
        except subprocess.TimeoutExpired:
            rc = _R(); rc.returncode = -999; rc.stderr = b'timed out (the operation did not return: hang / non-terminating loop)'
    err = ''
    if rc.returncode != 0:
        err = 'CRASH ' + binary + ' %s exited with %d (negative = killed by that signal): %s' % (' '.join(args), rc.returncode, rc.stderr.decode(errors='replace')[-300:])
    with open(stream) as fi, open(outp, 'w') as fo:
        rc2 = subprocess.run([os.path.join(ROOT, 'bin', 'modelrun'), variant], stdin=fi, stdout=fo, stderr=subprocess.PIPE, timeout=3000)
    if rc2.returncode != 0:
        err += ' modelrun failed: ' + rc2.stderr.decode(errors='replace')[-300:]
    return name, stream, outp, err

def parse_model_output(path):
    fails = []; counts = {}; ophist = {}; dist = {}; summary = {}
    cur = None
    for line in open(path, errors='replace'):
        line = line.rstrip('\n')
        if line.startswith('FAIL '):
            kv = dict(x.split('=', 1) for x in line[5:].split(' '))
            cur = dict(trace=int(kv['trace']), step=int(kv['step']), line=int(kv['line']), comps=kv['comps'].split(','), text=[])
            fails.append(cur)
        elif line.startswith('  ') and cur is not None:
            cur['text'].append(line)
            if line.startswith('  op:'): cur['op'] = line.split('OP ', 1)[1].split(' ')[1]
        elif line.startswith('SUMMARY '):
            summary = dict((k, int(v)) for k, v in (x.split('=') for x in line[8:].split(' ')))
        elif line.startswith('COUNT '):
            _, k, c, f = line.split(' '); counts[k] = [int(c), int(f)]
        elif line.startswith('OPHIST '):
            _, k, c = line.split(' '); ophist[k] = int(c)
        elif line.startswith('DIST '):
            _, k, c = line.split(' '); dist[k] = int(c)
    return dict(fails=fails, counts=counts, ophist=ophist, dist=dist, summary=summary)

def corr_key(tier, seed):
    srcs = files_under(os.path.join(REPO, 'src'), ('.rs',)) + [os.path.join(REPO, 'Cargo.toml')]
    srcs += files_under(os.path.join(HARNESS, 'src'), ('.rs',)) + [os.path.join(HARNESS, 'Cargo.toml')]
    # only what the extracted model is made of (Gen/ holds tables regenerated from the source by the C18/C19 engines, M/ the
    # size-estimation layer: neither takes part in the correspondence run)
    srcs += [os.path.join(ROOT, 'ocaml', 'driver.ml'), os.path.join(ROOT, 'coq', 'Base.v'), os.path.join(ROOT, 'coq', 'Extract.v')]
    for d in ('A', 'B', 'T'): srcs += files_under(os.path.join(ROOT, 'coq', d), ('.v',))
    srcs += glob.glob(os.path.join(ROOT, 'corpus', '*.trace')) + [os.path.join(ROOT, 'tools', 'check.py')]
    return '%s-%s-%s' % (tier, seed, sha_files(srcs))

def correspondence(tier, seed):
    key = corr_key(tier, seed)
    rundir = os.path.join(CACHE, 'runs', key)
    resf = os.path.join(rundir, 'result.json')
    with Lock('corr-' + tier):
        if os.path.exists(resf):
            r = json.load(open(resf)); r['cached'] = True; return r
        t0 = time.time()
        problems, build_s = build_tools()
        os.makedirs(rundir, exist_ok=True)
        result = dict(key=key, rundir=rundir, problems=problems, jobs={}, build_s=build_s)
        if not problems:
            jobs = plan(tier, seed)
            with concurrent.futures.ThreadPoolExecutor(max_workers=14) as ex:
                for name, stream, outp, err in ex.map(lambda j: run_job(j, rundir), jobs):
                    pr = parse_model_output(outp)
                    pr['stream'] = stream
                    if err.startswith('CRASH'):
                        result.setdefault('crashes', []).append(dict(job=name, stream=stream, what=err))
                    elif err: result['problems'].append(err)
                    if not pr['summary']: result['problems'].append('no summary from modelrun for ' + name)
                    result['jobs'][name] = pr
        # scripted scenarios (harness/src/bin/directed.rs): each prints `DIRECTED <name> ok|FAIL <detail>`
        result['directed'] = {}
        if not problems:
            for prof in ('debug', 'release'):
                try:
                    r = subprocess.run([exe_path(prof, 'directed')], capture_output=True, text=True, timeout=300)
                    for l in r.stdout.splitlines():
                        ws = l.split(' ', 3)
                        if len(ws) >= 3 and ws[0] == 'DIRECTED':
                            if ws[2] != 'ok': result['directed'][ws[1]] = '%s build: %s' % (prof, ws[3] if len(ws) > 3 else 'FAIL')
                            else: result['directed'].setdefault(ws[1], 'ok')
                    if r.returncode != 0: result['directed']['(process)'] = '%s build: directed exited with %s: %s' % (prof, r.returncode, r.stderr[-300:])
                except Exception as ex:
                    result['directed']['(process)'] = '%s build: %r' % (prof, ex)
        result['wall_s'] = time.time() - t0
        # keep only the newest few run directories
        runs = sorted(glob.glob(os.path.join(CACHE, 'runs', '*')), key=os.path.getmtime)
        for old in runs[:-3]:
            if old != rundir: shutil.rmtree(old, ignore_errors=True)
        json.dump(result, open(resf, 'w'))
        result['cached'] = False
        return result

def extract_trace(stream, trace_idx):
    """the lines of trace number trace_idx (0-based count of 'CFG 0' records) of a stream file"""
    out = []; t = -1
    for line in open(stream, errors='replace'):
        if line.startswith('CFG 0 '): t += 1
        if t == trace_idx: out.append(line)
        elif t > trace_idx: break
    return out

def comp_table(cfg):
    """component -> list of (operations | None, job-name prefix | None)"""
    t = {}
    for c in cfg.get('comps', []):
        if isinstance(c, (list, tuple)):
            t.setdefault(c[0], []).append((None if c[1] is None else set(c[1]), c[2] if len(c) > 2 else None))
        else:
            t.setdefault(c, []).append((None if cfg.get('ops') is None else set(cfg['ops']), None))
    for c in cfg.get('comps_any', []): t.setdefault(c, []).append((None, None))
    return t

def comp_hits(tab, comp, op, job):
    return any((ops is None or op in ops) and (jp is None or job.startswith(jp) or job.startswith('cand') or job.startswith('replay')) for ops, jp in tab.get(comp, []))

def fails_for(pid, corr):
    tab = comp_table(PROPS[pid])
    found = []
    for name, job in sorted(corr['jobs'].items()):
        for f in job['fails']:
            hit = [c for c in f['comps'] if comp_hits(tab, c, f.get('op'), name)]
            if not hit: continue
            found.append(dict(job=name, stream=job['stream'], hit=hit, **f))
    return found

def replay_still_fails(pid, lines, tmpdir):
    """run a candidate trace (list of lines) on debug and release; True when a component of pid still fails"""
    path = os.path.join(tmpdir, 'cand.trace')
    open(path, 'w').writelines(lines)
    for prof in ('release', 'debug'):
        name, stream, outp, err = run_job(('cand-' + prof, prof, 'cache_trace', ['replay', path]), tmpdir)
        pr = parse_model_output(outp); pr['stream'] = stream
        if fails_for(pid, dict(jobs={'cand': pr})): return True
    return False

def shrink(pid, lines, budget_s=25):
    """delta debugging on the OP records (an OP line and the OB line after it)"""
    tmpdir = os.path.join(CACHE, 'shrink-%s-%d' % (pid, os.getpid())); os.makedirs(tmpdir, exist_ok=True)
    t0 = time.time()
    head = [l for l in lines if l.startswith('CFG 0 ')][:1]
    ops = [l for l in lines if l.startswith('OP ') or (l.startswith('CFG ') and not l.startswith('CFG 0 '))]
    def build(sel): return head + sel + ['END\n']
    try:
        if not replay_still_fails(pid, build(ops), tmpdir): return lines, False
        n = 2
        while len(ops) >= 2 and time.time() - t0 < budget_s:
            chunk = max(1, len(ops) // n); reduced = False
            for i in range(0, len(ops), chunk):
                cand = ops[:i] + ops[i + chunk:]
                if cand and replay_still_fails(pid, build(cand), tmpdir):
                    ops = cand; n = max(n - 1, 2); reduced = True; break
                if time.time() - t0 > budget_s: break
            if not reduced:
                if chunk == 1: break
                n = min(len(ops), n * 2)
        return build(ops), True
    finally:
        shutil.rmtree(tmpdir, ignore_errors=True)

def load_known():
    known = []
    p = os.path.join(ROOT, 'known_findings.txt')
    if os.path.exists(p):
        for line in open(p):
            line = line.strip()
            if line.startswith('known:'):
                m = re.match(r'known:\s*property=(\w+)\s+match=(\S+)\s+(.*)', line)
                if m: known.append(dict(pid=m.group(1), match=m.group(2), what=m.group(3)))
    return known

def write_replay(pid, tag, header, lines):
    os.makedirs(os.path.join(ROOT, 'replays'), exist_ok=True)
    h = hashlib.sha256((''.join(lines) + tag).encode()).hexdigest()[:10]
    path = os.path.join(ROOT, 'replays', '%s-%s.trace' % (pid, h))
    with open(path, 'w') as f:
        for hl in header: f.write('# ' + hl + '\n')
        f.writelines(lines)
    return path

# ------------------------------------------------------------------------------------------------
def main():
    args = sys.argv[1:]
    if not args: print(__doc__); return 2
    pid = args[0]
    tier = os.environ.get('VERIF_TIER', 'quick'); replay = None
    i = 1
    while i < len(args):
        if args[i] == '--tier': tier = args[i + 1]; i += 2
        elif args[i] == '--replay': replay = args[i + 1]; i += 2
        else: i += 1
    seed = int(os.environ.get('VERIF_SEED', '1'))
    cfg = PROPS[pid]
    if cfg.get('engine'):
        import importlib
        mod = importlib.import_module(cfg['engine'])
        rc = mod.main(pid, tier, seed, replay)
        # scripted scenarios of harness/src/bin/directed.rs registered for this property (run in addition to the engine)
        if cfg.get('directed') and not replay:
            problems, _ = build_tools()
            for prof in ('debug', 'release'):
                for name in cfg['directed']:
                    try:
                        r = subprocess.run([exe_path(prof, 'directed'), name], capture_output=True, text=True, timeout=600)
                        ok = (r.returncode == 0) and (('DIRECTED %s ok' % name) in r.stdout)
                        what = (r.stdout.strip() or ('exit code %s %s' % (r.returncode, r.stderr[-300:])))
                    except Exception as ex:
                        ok, what = False, repr(ex)
                    if not ok:
                        path = write_replay(pid, 'directed-%s-%s' % (name, prof), ['property=%s' % pid, 'scripted scenario %s of harness/src/bin/directed.rs fails on the real crate (%s build):' % (name, prof), what[:1500],
                                                                                     'replay: cargo run --offline --manifest-path harness/Cargo.toml --bin directed -- %s' % name], [])
                        print('VIOLATION property=%s replay=%s' % (pid, path)); print('  scripted scenario %s fails (%s build): %s' % (name, prof, what[:300]))
                        rc = 1
        return rc
    t0 = time.time()
    os.makedirs(CACHE, exist_ok=True)

    if replay:
        problems, _ = build_tools()
        head = open(replay, errors='replace').read(4000)
        m_dir = re.search(r'scripted scenario (\w+) of harness/src/bin/directed.rs', head)
        if m_dir:
            bad = False
            for prof in ('debug', 'release'):
                r = subprocess.run([exe_path(prof, 'directed'), m_dir.group(1)], capture_output=True, text=True, timeout=300)
                print('%s: %s' % (prof, r.stdout.strip()))
                bad |= (' ok' not in r.stdout) or r.returncode != 0
            if bad: print('VIOLATION property=%s replay=%s' % (pid, replay))
            return 1 if bad else 0
        tmp = os.path.join(CACHE, 'replay-%d' % os.getpid()); os.makedirs(tmp, exist_ok=True)
        bad = False
        for prof in ('debug', 'release'):
            name, stream, outp, err = run_job(('replay-' + prof, prof, 'cache_trace', ['replay', replay]), tmp)
            pr = parse_model_output(outp); pr['stream'] = stream
            fs = fails_for(pid, dict(jobs={'replay': pr}))
            print('%s: %d steps, %d failing for %s' % (prof, pr['summary'].get('steps', 0), len(fs), pid))
            for f in fs[:5]:
                print('FAIL step=%d comps=%s' % (f['step'], ','.join(f['hit']))); print('\n'.join(f['text']))
            bad |= bool(fs)
        shutil.rmtree(tmp, ignore_errors=True)
        if bad: print('VIOLATION property=%s replay=%s' % (pid, replay))
        return 1 if bad else 0

    static = None
    if cfg.get('static') == 'c19':
        # static half of C19: tables regenerated from /repo/src by the syn translator, theorem re-checked
        import sig_check
        try:
            ok_s, det = sig_check.c19_static()
        except Exception as ex:
            ok_s, det = False, dict(problems=['sig_check.c19_static raised %r' % (ex,)], witness=None)
        static = (ok_s, det)
    proof = proof_side(pid, tier)
    corr = correspondence(tier, seed)
    violations = []          # (replay path, description, no_input_found)
    # Layer P: the bodies of the pointer functions, re-translated from /repo/src now, against the hand-written definitions of
    # Layer B (coq/Gen/README-P.md). A theorem that no longer checks is a broken tie between model and code for the
    # properties that rest on those definitions.
    layer_p = None
    layer_p2 = None
    for cfgkey, script, lname, files in (('bodies', 'body_check.py', 'Layer P', 'coq/Gen/BodiesProps.v against coq/Gen/Bodies.v'),
                                         ('oplayer', 'op_check.py', 'Layer P2', 'coq/Gen/OpBodiesProps.v against coq/Gen/OpBodies.v')):
        if not cfg.get(cfgkey): continue
        try:
            r = subprocess.run([sys.executable, os.path.join(ROOT, 'tools', script)], capture_output=True, text=True, timeout=1500)
            res_p = json.loads(r.stdout)
        except Exception as ex:
            res_p = dict(ok=False, failed=[dict(theorem=script, error=repr(ex))], functions=[], theorems=[])
        if cfgkey == 'bodies': layer_p = res_p
        else: layer_p2 = res_p
        pats = cfg[cfgkey]
        def concerns(item):
            name = (item.get('function') or '') + ' ' + (item.get('theorem') or '')
            return pats == 'all' or any(re.search(p_, name, re.I) for p_ in pats) or not (item.get('function') or item.get('theorem', '').startswith(('P_', 'T_', 'P2_')))
        bad = [f for f in (res_p.get('failed') or []) if concerns(f)]
        if cfgkey == 'oplayer':
            # one tie per change: helper lemmas are not obligations of a property; when the translator met statements it does not
            # understand, only the functions that contain them are reported (their callers fail as a consequence)
            bad = [f for f in bad if (f.get('theorem') or '').startswith('P2_lrucache_') or not (f.get('theorem') or f.get('function'))]
            roots = {u.get('function') for u in (res_p.get('unknown_statements') or []) if isinstance(u, dict)
                     and not str(u.get('text', '')).startswith('call of a function that is not translated')}
            if roots: bad = [f for f in bad if f.get('function') in roots]
        if not res_p.get('ok') and not res_p.get('failed'):
            bad = [dict(theorem=script, error='reported not ok without naming a theorem: ' + json.dumps(res_p)[:600])]
        if bad:
            hdr = ['property=%s' % pid, '%s (%s regenerated from the current source): the translated body of a function' % (lname, files),
                   'no longer has the semantics of the hand-written Layer B definition the theorems of this property are about:'] + \
                  ['  %s %s: %s' % (f.get('function', ''), f.get('theorem', ''), str(f.get('error', ''))[:600].replace('\n', ' ')) for f in bad[:12]] + \
                  ['unknown statements: %s' % (res_p.get('unknown_statements'),)]
            path = write_replay(pid, 'layer' + cfgkey, hdr, [])
            violations.append((path, '%s theorem(s) no longer check: %s' % (lname, ', '.join(sorted({f.get('theorem') or f.get('function') or '?' for f in bad})[:8])), True))
    known_hits = []
    known = [k for k in load_known() if k['pid'] == pid]

    fails = fails_for(pid, corr)
    # group by (op, components) and report each group once, shrunk
    groups = {}
    for f in fails:
        groups.setdefault((f.get('op'), tuple(sorted(f['hit']))), []).append(f)
    for (op, hit), fs in sorted(groups.items(), key=lambda kv: str(kv[0])):
        f = fs[0]
        sig = '%s:%s' % (op, '+'.join(hit))
        k = next((k for k in known if re.fullmatch(k['match'], sig)), None)
        if k:
            known_hits.append((k, sig)); continue
        lines = extract_trace(f['stream'], f['trace'])
        # cut after the failing step
        cut = []; steps = 0
        for l in lines:
            cut.append(l)
            if l.startswith('OP '): steps += 1
            if l.startswith('OB ') and steps >= f['step'] and len(cut) > 2: break
        small, shrunk = shrink(pid, cut + ['END\n'])
        header = ['property=%s' % pid, 'failing components: %s' % ','.join(hit), 'operation: %s' % op,
                  'found in job %s trace %d step %d (%d failing steps in this group)' % (f['job'], f['trace'], f['step'], len(fs)),
                  'shrunk=%s' % shrunk, 'replay: tools/check.py %s --replay <this file>' % pid] + [t.strip() for t in f['text']]
        path = write_replay(pid, sig, header, small)
        # components that only tie the model to the code (the property does not fix what they compare): when nothing
        # but those fails, the model no longer describes the code at this step but no input violating the property itself
        # was found; the replay is the step where the correspondence breaks
        corr_only = set(cfg.get('corr_only', []))
        nofail = bool(hit) and all(c in corr_only for c in hit)
        violations.append((path, ('correspondence between model and implementation broken at %s (the property\'s own monitors hold on this input)' % sig) if nofail
                           else 'implementation and model/monitor disagree at %s' % sig, nofail))

    for name in cfg.get('directed', []):
        st = corr.get('directed', {}).get(name)
        if st is not None and st != 'ok':
            path = write_replay(pid, 'directed-' + name, ['property=%s' % pid, 'scripted scenario %s of harness/src/bin/directed.rs fails on the real crate:' % name, st,
                                                        'replay: cargo run --offline --manifest-path harness/Cargo.toml --bin directed -- %s' % name], [])
            violations.append((path, 'scripted scenario %s fails: %s' % (name, st[:200]), False))
    incomplete = []
    for cr in corr.get('crashes', []):
        # a harness process killed by a signal is a memory-safety failure (C07); one that does not return is a non-terminating
        # operation (the eviction loop of C01/C02, or a cyclic list: C07). For the other properties the job is merely incomplete
        # (recorded in the evidence); every step observed before the crash was still judged.
        hang = 'timed out' in cr['what']
        # the implementation killed the harness process: the last trace of the stream is the failing input
        try:
            n_tr = sum(1 for l in open(cr['stream'], errors='replace') if l.startswith('CFG 0 '))
            lines = [l for l in extract_trace(cr['stream'], n_tr - 1) if l.startswith(('CFG', 'OP'))] + ['END\n']
        except Exception:
            lines = []
        last_op = next((l.split()[2] for l in reversed(lines) if l.startswith('OP ') and len(l.split()) > 2), '')
        # an iterator that never stops is a violation of the iterator contract (and of the coherence of the traversal); any other
        # operation that does not return is the eviction loop (C01 / C02) or a cyclic list (C07)
        concerned = (('C12', 'C07') if last_op in ('iter', 'drain', 'into_iter') else ('C07', 'C01', 'C02')) if hang else ('C07',)
        if pid not in concerned:
            incomplete.append(cr['job']); continue
        path = write_replay(pid, 'crash' + cr['job'], ['property=%s' % pid, 'the real crate crashed the harness process while executing this trace (memory unsafety / abort):', cr['what'],
                                                      'the last OP line is the operation during which the process died'], lines)
        violations.append((path, 'implementation crashed during the correspondence run (%s)' % cr['job'], False))
    if corr['problems']:
        path = write_replay(pid, 'corr', ['correspondence could not be established:'] + [p[:2000] for p in corr['problems']], [])
        violations.append((path, 'correspondence check broken', True))
    if not proof['ok']:
        if not violations:
            path = write_replay(pid, 'proof', ['proof side of %s no longer checks:' % pid] + proof['problems'] +
                                ['no failing input was found by the correspondence run (%s tier)' % tier], [])
            violations.append((path, 'proof obligation broken', True))
        else:
            print('NOTE: proof side also broken: ' + '; '.join(proof['problems']))

    # ---------------- evidence ----------------
    tot_steps = sum(j['summary'].get('steps', 0) for j in corr['jobs'].values())
    tot_traces = sum(j['summary'].get('traces', 0) for j in corr['jobs'].values())
    nontriv = sum(j['summary'].get('distinct_nontrivial', 0) for j in corr['jobs'].values())
    checked = {}
    for j in corr['jobs'].values():
        for k, (c, fl) in j['counts'].items():
            a = checked.setdefault(k, [0, 0]); a[0] += c; a[1] += fl
    ophist = {}; dist = {}
    for j in corr['jobs'].values():
        for k, c in j['ophist'].items(): ophist[k] = ophist.get(k, 0) + c
        for k, c in j['dist'].items(): dist[k] = dist.get(k, 0) + c
    samples = []
    for name, j in sorted(corr['jobs'].items()):
        if len(samples) >= 2: break
        try:
            tr = extract_trace(j['stream'], 0)
            ops = [l.strip() for l in tr if l.startswith(('CFG', 'OP'))][:12]
            samples.append(dict(job=name, first_ops=ops))
        except Exception: pass
    samples.append(dict(theorems=proof['theorems'], files=proof['files']))
    ev = dict(
        property_id=pid, tier=tier, seed=seed, level=cfg.get('level', 'proof'),
        coverage=dict(
            obligations=max(proof['obligations'], 1) + sum(len(x.get('theorems') or []) for x in (layer_p, layer_p2) if x), discharged=proof['discharged'] + sum(len(x.get('theorems') or []) - len(x.get('failed') or []) for x in (layer_p, layer_p2) if x),
            checker_cmd='make -C coq (coq_makefile, coqc 8.16.1, full .vo) && coqc -Q coq LruV coq/Properties/%s.v ; audit: no Admitted/admit/Axiom/Parameter/Conjecture/guard-off in coq/, Print Assumptions closed or allow-listed' % pid,
            trusted_base=TRUSTED_BASE + cfg.get('trusted_extra', []),
            theorems=proof['theorems'], axioms_reported=proof['axioms'], print_assumptions=proof.get('print_assumptions'),
            proof_problems=proof['problems'], coqchk=proof.get('coqchk'), layer_p=(None if layer_p is None else dict(ok=layer_p.get('ok'), functions=layer_p.get('functions'), theorems=len(layer_p.get('theorems') or []), failed=layer_p.get('failed'))), layer_p2=(None if layer_p2 is None else dict(ok=layer_p2.get('ok'), functions=layer_p2.get('functions'), theorems=len(layer_p2.get('theorems') or []), failed=layer_p2.get('failed'))), static_c19=(None if static is None else dict(ok=static[0], roots=static[1].get('roots'), functions=static[1].get('functions'), functions_with_write_primitive=static[1].get('functions_with_write_primitive'), clone=static[1].get('clone'), not_covered=static[1].get('not_covered'))),
            traces_validated_against_impl=tot_traces, evaluations=tot_steps, distinct_nontrivial=nontriv,
            rule='one evaluation = one observed step (pre-state, operation, result, post-state) of the real LruCache, checked against the extracted Coq model started from the observed pre-state and against the extracted monitors; distinct = distinct (operation, pre-state entries, limit) triples; non-trivial = pre-state non-empty',
            components_checked={k: v for k, v in sorted(checked.items()) if k in comp_table(cfg)},
            components_of_this_property={k: [dict(ops=(sorted(o) if o else 'all'), jobs=(j or 'all')) for o, j in v] for k, v in comp_table(cfg).items()},
            operation_histogram=ophist, input_distribution=dist,
            jobs=sorted(corr['jobs'].keys()), incomplete_jobs_harness_crashed_or_hung=incomplete, correspondence_cached=corr.get('cached', False),
            samples=samples, exhaustive=False,
            exhaustive_subspace=('every sequence of 2 operations over the 39-operation small alphabet (3 keys x 3 value sizes, tight limit, all-colliding hasher) from the empty cache' if tier == 'quick' else 'every sequence of 3 operations over the 39-operation small alphabet and every sequence of 4 over the 14-operation reduced alphabet, identity and all-colliding hashers, from the empty cache') + ' (jobs exh*: used as model validation and counter-example search, never as the proof)'),
        assumptions=cfg.get('assumptions', []),
        wall_s=round(time.time() - t0, 2), violations=len(violations))
    evdir = os.path.join(ROOT, 'evidence') if 'VERIF_REPO' not in os.environ else os.path.join(CACHE, 'evidence-scratch')   # scratch experiments never touch the evidence
    os.makedirs(evdir, exist_ok=True)
    json.dump(ev, open(os.path.join(evdir, pid + '.json'), 'w'), indent=1)

    for k, sig in known_hits:
        print('KNOWN-FINDING: property=%s %s (%s)' % (pid, k['what'], sig))
    # a broken proof obligation / correspondence is reported on its own (no-failing-input-found) only when the search found no
    # concrete failing input; otherwise the concrete input is the replay and the broken tie is a note beside it
    concrete = [v for v in violations if not v[2]]
    for path, what, nofound in violations:
        if nofound and concrete:
            print('NOTE: also no longer checks: %s (%s)' % (what, path)); continue
        print('VIOLATION property=%s replay=%s%s' % (pid, path, ' no-failing-input-found' if nofound else ''))
        print('  ' + what)
    if not violations:
        print('OK %s: %d obligations checked, %d observed steps of %d traces agree with the model on %s (%.1fs)' %
              (pid, proof['discharged'], tot_steps, tot_traces, ','.join(sorted(comp_table(cfg))), time.time() - t0))
    return 1 if violations else 0

if __name__ == '__main__':
    try:
        rc = main()
    except Exception:
        import traceback
        traceback.print_exc()
        pid = sys.argv[1] if len(sys.argv) > 1 else '?'
        path = write_replay(pid, 'internal', ['the check itself failed with an internal error (see traceback on stdout); the property is not shown to hold', traceback.format_exc()[-3000:]], [])
        print('VIOLATION property=%s replay=%s no-failing-input-found' % (pid, path))
        rc = 1
    sys.exit(rc)
