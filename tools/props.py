"""Per-property configuration of the checks: which components of the step-wise comparison and which
monitors carry the property (its projection), which operations it concerns, and which theorems
Properties/<id>.v must contain."""

ALLOWED_AXIOMS = []      # no axiom is used anywhere; the allow-list is empty

TRUSTED_BASE = [
    'Coq 8.16.1 kernel (coqc); vm_compute for closed witnesses only; no native_compute',
    'axioms: none (Print Assumptions reports "Closed under the global context" for every property theorem)',
    'extraction: ExtrOcamlBasic only (Extract Inductive for bool, option, unit, prod, list, sumbool, sumor); N/positive/nat stay inductive; no Extract Constant; OCaml 4.13.1 + zarith for decimal<->N in the driver',
    'correspondence machinery (differential testing, not proof): harness types and instrumentation (harness/src), the read-only snapshot hook (cargo feature verif-hooks), trace generator, ocaml/driver.ml comparison, tools/check.py',
    'Layer P translator (sigdump --bodies, syn): bodies of 17 pointer functions re-translated from the current source on every run and proved equal to the hand-written Layer B definitions (coq/Gen/BodiesProps.v); trusted to parse and to render the recognised idioms, everything else becomes a faulting Unknown statement or a whitelisted named Opaque',
    'Layer P2 translator (sigdump --ops, syn): bodies of 33 methods of src/lib.rs (every public operation but retain and clear, and their private helpers) re-translated on every run into a small deep embedding and proved equal to the clauses of the pointer-level model stepB (coq/Gen/OpBodiesProps.v, 42 theorems); trusted to parse and to render a fixed set of idioms, everything else is a faulting Unknown node',
    'modelled by hand, not verified: all of /repo/src (Layers P and P2 tie the pointer primitives and the operation bodies to the source by translation); assumed and only exercised: hashbrown RawTable contract, rustc/std semantics of MaybeUninit, ptr::read, drop order, size_of (a parameter of the model)',
]

ALL_OPS = None

LOOKUPS = ['get', 'get_entry', 'peek', 'peek_entry', 'contains', 'remove', 'remove_entry', 'remove_lru', 'remove_mru', 'insert', 'get_lru', 'peek_lru', 'peek_mru', 'touch']
CAPOPS = ['reserve', 'try_reserve', 'shrink_to', 'shrink_to_fit']
INS = ['insert', 'try_insert']
ITERS = ['iter', 'drain', 'into_iter']

# comps: a component name (judged on every operation, or on cfg['ops'] when given) or (component, [operations] | None).
# A property's alarm is raised only by components that state the property itself: absolute monitors (mon_*) evaluated on
# the implementation's observations, or equality with the model's step where the property IS that functional statement.
PROPS = {
    'C01': dict(
        comps=['mon_c01', 'mon_c01_cur', 'fault'], corr_only=['fault'],
        theorems=['C01_bound', 'C01_arith', 'C01_total', 'C01_monitor_sound', 'C01_pointer_level'],
        assumptions=['entry_size of every presented pair fits in usize (DESIGN.md 9.2)', '0 < size_of::<Entry<K,V>>() and size_of::<V>() <= size_of::<Entry<K,V>>()'],
    ),
    'C02': dict(
        comps=['mon_c02', 'mon_c02_sum', 'api_len'],
        theorems=['C02_sum', 'C02_monitor_sound', 'C02_pointer_level'],
        assumptions=['key and value sizes change only inside mutate (the harness types guarantee it)'],
    ),
    'C03': dict(
        oplayer=['P2_lrucache_eject_to_target', 'P2_lrucache_set_max_size', 'P2_lrucache_remove_lru', 'P2_lrucache_remove_ptr', 'P2_lrucache_remove_metadata'],
        comps=['evict_order', 'keyset', 'mon_c03'],
        theorems=['C03_insert', 'C03_exact_fit', 'C03_mutate', 'C03_set_max', 'C03_only_when', 'C03_pointer_level', 'C03_monitor_sound', 'C03_evicts_least_recently_accessed', 'C03_lru_is_least_recently_accessed'],
        assumptions=['eviction order is observed through the order in which the evicted keys are dropped'],
    ),
    'C04': dict(
        oplayer=['P2_lrucache_remove$', 'P2_lrucache_remove_entry', 'P2_lrucache_remove_from_table', 'P2_lrucache_contains', 'P2_lrucache_peek$', 'P2_lrucache_peek_entry', 'P2_lrucache_get_from_table', 'P2_lrucache_remove_mru'],
        comps=[('res', LOOKUPS), 'keyset', 'mon_c04', 'api_map'], directed=['c04_alias_prefix'],
        theorems=['C04_nodup', 'C04_outputs', 'C04_insert_returns_old', 'C04_step', 'C04_monitor_sound', 'C04_pointer_level', 'C04_last_store_wins', 'C04_history_pointer_level'],
        assumptions=['hashbrown finds an entry iff present under any hash function when the same hash is presented as at insertion (its contract; exercised with 5 hashers incl. constant, and Borrow<KeyId> lookups)',
                     'after every step every key of the universe is looked up through contains/peek/peek_entry in borrowed and owned form and compared with the pointer walk (flag api_map)'],
    ),
    'C05': dict(
        oplayer=['P2_lrucache_touch', 'P2_lrucache_get$', 'P2_lrucache_get_entry', 'P2_lrucache_get_lru', 'P2_lrucache_peek_lru', 'P2_lrucache_peek_mru', 'P2_lrucache_get_mut_from_table'],
        comps=['order', 'api_order', 'panic_order'], bodies=['touch_ptr', 'set_head', 'EntryPtr::', 'Entry::unhinge', 'lru_ptr', 'mru_ptr', 'move_to_table'],
        theorems=['C05_order', 'C05_observers', 'C05_peeks', 'C05_touch_pointer', 'C05_remove_pointer', 'C05_insert_pointer', 'C05_realloc_pointer', 'C05_touch_refines', 'C05_remove_refines', 'C05_lru_is_head', 'C05_pointer_level_iteration', 'C05_order_of_last_access', 'C05_history_pointer_level', 'C05_lru_end_is_oldest_access', 'C05_mru_end_is_newest_access'],
        assumptions=['iteration forward and reversed, keys(), values(), peek_lru/peek_mru and Debug are cross-checked against the pointer walk of the hook after every step (flag api_order)'],
    ),
    'C06': dict(
        comps=['mon_c06', 'drop_once'],
        theorems=['C06_step', 'C06_exactly_once', 'C06_no_leak_without_forget', 'C06_monitor_sound', 'C06_pointer_level', 'C06_exactly_once_pointer_level'],
        assumptions=['object identity = token carried by the instrumented key/value types; Drop logs the token'],
    ),
    'C07': dict(
        comps=['mon_c07', 'addr_stable', 'bsim', 'brefine', 'api_map', 'api_len', 'api_order', ('res', ['iter'])], corr_only=['bsim', 'brefine'], bodies='all',
        theorems=['C07_unhinge', 'C07_set_head', 'C07_touch', 'C07_realloc', 'C07_traversal', 'C07_b_touch', 'C07_b_remove', 'C07_b_insert_new', 'C07_b_moves', 'C07_public_ops_refine', 'C07_reachable_coherent', 'C07_no_pointer_fault', 'C07_no_pointer_fault_with_buckets', 'C07_monitor_sound'],
        assumptions=['Layer B faults on access to unallocated/freed nodes and on reading moved-out or uninitialised payloads; aliasing-model UB is outside the model (DESIGN.md 6, 9.1)',
                     'the monitor ri_check (proved sound: C07_monitor_sound) is evaluated on the pointer graph the dangling-safe hook walker reports after every step; bucket addresses of surviving entries must be stable unless the table was rebuilt', 'bsim: the extracted pointer-level public operation stepB (B/StepB.v, proved to refine stepA: C07_public_ops_refine) is run on the observed pointer graph before each step, with the bucket addresses hashbrown chose, and must produce exactly the links and recorded sizes observed after it; brefine: its result, events and abstract final state must be the ones Layer A computed for that step'],
    ),
    'C08': dict(engine='memsize_check', comps=[], directed=['c08_zero_len_arrays'],
        theorems=['C08_bulk', 'C08_mem', 'C08_container', 'C08_wrapper', 'C08_depth', 'C08_depth_empty_sections', 'C08_flat_iterator'],
        assumptions=['no Mutex/RwLock is poisoned (DESIGN.md 9.4)', 'iterators handed to the bulk helpers are pure']),
    'C09': dict(engine='memsize_check', comps=[], directed=['c09_pathbuf_capacity', 'c09_contended_lock'],
        theorems=['C09_exact', 'C09_upper', 'C09_map', 'C09_set', 'C09_ref'],
        assumptions=['no Mutex/RwLock is poisoned (DESIGN.md 9.4)']),
    'C10': dict(
        oplayer=['P2_lrucache_insert$', 'P2_lrucache_try_insert', 'P2_lrucache_prepare_insert'],
        comps=['res_class', 'atomic', 'keyset', 'evict_order'],
        ops=INS,
        theorems=['C10_insert', 'C10_try_insert', 'C10_pointer_level'],
    ),
    'C11': dict(
        oplayer=['P2_lrucache_mutate'],
        comps=['res', 'closure_calls', 'keyset', 'order', 'ents', 'sizes', 'cur', 'max', 'drops', 'evict_order'],
        ops=['mutate'],
        theorems=['C11_absent', 'C11_too_large', 'C11_ok', 'C11_pointer_level'],
        assumptions=['that the closure is not called for an absent key is observed by the harness (closure call counter), not part of the Layer A theorem'],
    ),
    'C12': dict(
        comps=['res', 'drops', 'keyset', 'order', 'ents', 'sizes', 'cur', 'max', 'mon_c06'],
        ops=ITERS, bodies=['Iter::', 'TakingIterator::', 'Drain::new', 'lru_ptr', 'mru_ptr'],
        comps_any=['api_order'],
        theorems=['C12_split', 'C12_fused', 'C12_iter', 'C12_drain', 'C12_into_iter', 'C12_cursor', 'C12_taking', 'C12_taking_items', 'C12_pointer_level_drain'],
    ),
    'C13': dict(
        oplayer=['P2_lrucache_insert_unchecked', 'P2_lrucache_reallocate', 'P2_lrucache_try_reallocate', 'P2_lrucache_reserve', 'P2_lrucache_try_reserve', 'P2_lrucache_shrink_to', 'P2_lrucache_new_capacity', 'P2_lrucache_insert_untracked'],
        corr_only=['cap'], directed=['c13_shrink_raises'],
        comps=['cap', 'clone_cap', 'mon_c13', 'growth'] + [(c, CAPOPS) for c in ('res', 'keyset', 'order', 'ents', 'sizes', 'cur', 'max', 'drops')],
        theorems=['C13_transparent', 'C13_reserve', 'C13_try_reserve_fail', 'C13_shrink', 'C13_shrink_to_fit', 'C13_with_capacity_step', 'C13_with_capacity_run', 'C13_auto_growth', 'C13_growth_bounded', 'C13_monitor_growth_insert', 'C13_monitor_growth_try_insert', 'C13_monitor_sound', 'C13_pointer_level'],
        assumptions=['Layer T is a demonic abstraction of hashbrown: tombstone creation/reuse is an oracle resolved from the observed capacity; every observed (len, capacity, buckets) transition must be one the model allows',
                     'allocator refusal is injected by the harness allocator for try_reserve'],
    ),
    'C14': dict(
        comps=['res', 'keyset', 'order', 'ents', 'sizes', 'cur', 'max', 'clone_cap', 'clone_fresh', 'drops', 'bsim'],
        ops=['clone'],
        comps_any=['oth'],
        theorems=['C14_equal', 'C14_fresh', 'C14_inv', 'C14_footprint_touch', 'C14_footprint_remove', 'C14_footprint_insert', 'C14_independent', 'C14_pointer_level', 'C14_clone_no_fault', 'C14_frame_ops', 'C14_independent_ops', 'C14_independent_runs', 'C14_clone_then_ops'],
        assumptions=['independence is observed as: after every operation on one cache the structural fingerprint (addresses, links, sizes, scalars) of every other live cache is bit-for-bit unchanged (flag oth)'],
    ),
    'C15': dict(
        comps=['visits', 'res', 'keyset', 'order', 'ents', 'sizes', 'cur', 'max', 'drops'],
        ops=['retain'],
        theorems=['C15_retain', 'C15_pointer_level'],
    ),
    'C16': dict(
        directed=['c16_hash_panic_in_realloc'],
        corr_only=['panic_state', 'panic_bsim', 'panic_drops', 'calls_size', 'calls_hash', 'calls_closure'],
        comps=['panic_state', 'panic_bsim', 'panic_drops', 'panic_ri', 'panic_acc', 'panic_nodup', 'panic_bound', 'panic_lost', 'panic_ledger', 'panic_order', 'calls_size', 'calls_hash', 'calls_closure'] +
              [(c, None, 'panic') for c in ('drop_once', 'mon_c07', 'api_map', 'api_len', 'api_order', 'mon_c04', 'addr_stable')],
        theorems=['C16_all_points', 'C16_closure', 'C16_predicate', 'C16_clone', 'C16_between_primitives', 'C16_pointer_level_points'],
        assumptions=['panics are injected at the n-th Hash / Eq / Clone / HeapSize call and in the mutate closure / retain predicate of the instrumented types, for every such call each candidate operation makes in each generated state; the unwind is caught, the cache is used further and dropped',
                     'Eq call counts depend on hashbrown probing: an Eq panic must land in one of the states the model lists for comparisons of that operation',
                     'panics in Drop implementations are outside the property'],
    ),
    'C17': dict(
        comps=['drop_once', ('mon_c06', ITERS), ('res', ITERS), ('drops', ITERS), ('ents', ['drain']), ('cur', ['drain']), ('keyset', ['drain']), 'ents_forget', 'cur_forget', 'keyset_forget', 'sizes_forget', 'max_forget', 'order_forget',
               ('mon_c07', ['drain']), ('mon_c02', ['drain']), ('mon_c01', ['drain']), ('bsim', ITERS), ('brefine', ITERS)], corr_only=['brefine'], bodies=['TakingIterator::', 'Drain::new'],
        theorems=['C17_taking_run', 'C17_drain_forget', 'C17_into_iter_forget', 'C17_into_iter_pointer_level', 'C17_drop_pointer_level', 'C17_into_iter_no_fault', 'C17_leaked_drain_pointer_level'],
        assumptions=['mem::forget of Drain / IntoIter / IntoKeys / IntoValues after every generated prefix of next/next_back calls, followed by further use and drop of the cache; borrowing iterators own nothing, forgetting them is a no-op'],
    ),
    'C18': dict(engine='sig_check', level='translation_validation', comps=[],
        theorems=['C18_send', 'C18_sync', 'C18_send_exact', 'C18_sync_exact', 'C18_not_auto', 'C18_manual_impls', 'C18_borrow', 'C18_borrow_nonvacuous']),
    'C19': dict(
        comps=['ro', 'ro_step'], static='c19',
        theorems=['C19_model_readonly', 'C19_clone_source_untouched', 'C19_static_no_write', 'C19_pointer_level_readonly', 'C19_clone_pointer_level'],
        assumptions=['thread scheduling is not modelled; the schedules quantifier is discharged by "the heap is constant under every &self operation"',
                     'the static call graph is a syntactic over-approximation produced by the syn translator (sound for the idioms it recognises; anything unrecognised counts as a write)',
                     'clone: writes into the new cache through source-derived handles are not covered statically (Gen/README.md clone_residual); covered by the fingerprint of the source before/after clone (flag oth)', 'ro_step: for every &self operation executed as a step (peek, peek_entry, contains, peek_lru, peek_mru, iter, Debug, the scalar getters, and clone with respect to its source) the structural fingerprint of the receiver (every address, link, recorded size, token, scalar and bucket) is compared before and after, also when the operation unwinds from an injected panic in Hash / Eq / Clone'],
        trusted_extra=['sigdump (syn 2 translator of /repo/src into coq/Gen/Sigs.v)'],
        comps_any=['oth'],
    ),
    'C20': dict(
        comps=['mon_c20'],
        theorems=['C20_bound', 'C20_clone', 'C20_drop_into_iter', 'C20_hash_points', 'C20_monitor_sound', 'C20_pointer_level'],
        assumptions=['the bound is evaluated on the implementation from observed quantities (hash calls of the instrumented key, departures, whether the table was rebuilt); that the implementation hashes no more than the model is logged, not required'],
    ),
}

NOT_APPLICABLE = {}

_A = 'Coq kernel; no axioms; hand-written Layer A model of src/lib.rs + src/iter.rs validated against the real crate by step-wise differential runs (bounded by the traces run: structured random + corpus, debug and release, 6 hashers incl. all-colliding and one with a specialised hash_one, 5 key/value type instantiations); hashbrown RawTable contract assumed'
_T = 'Coq proof (invariant / characterisation lemmas by induction over operations, all oracles) + extracted-model differential correspondence and extracted monitors on the implementation'
MANIFEST_TEXT = {
    'C01': dict(text='Theorems C01_bound / C01_arith over every reachable state of the Layer A model (all histories, limits 0..2^64-1, capacities, table oracles): bound on the counter and on the unbounded sum of size estimates, no 64-bit under/overflow, eviction loop terminates; C01_total: with the invariant of the hash table itself and tables below 2^48 entries every step is defined. Tied to /repo by the step-wise differential check and the extracted monitor c01_mon on the implementation.', note=_A, technique=_T),
    'C02': dict(text='Theorem C02_sum (cur = sum of recorded sizes = sum of entry_size, zero iff empty, one entry per key) over every reachable state; recorded per-entry sizes are read through the snapshot hook and compared after every step.', note=_A, technique=_T),
    'C03': dict(text='Theorems C03_insert / C03_mutate / C03_set_max: the evicted entries are exactly the shortest LRU-first prefix (minimal_prefix) computed after crediting a replaced key, never the new or mutated entry; C03_exact_fit; C03_only_when (only successful insert, growing mutate, set_max_size evict); C03_evicts_least_recently_accessed / C03_lru_is_least_recently_accessed: after ANY history, what an insertion evicts was last accessed before every old entry that stays, and peek_lru shows the entry whose last access is the oldest (from the history-level order theorem); C03_monitor_sound: the extracted monitor c03_mon (the last entry to leave could not have stayed, in the TRUE sizes of the entries) holds for every step of the model. Eviction order of the implementation is read from the drop order; c03_mon is evaluated on every observed step, also on steps whose pre-state has inconsistent size bookkeeping.', note=_A, technique=_T),
    'C05': dict(text='Theorem C05_order_of_last_access: after ANY history from new/with_capacity (unbounded length, arbitrary table oracle at every step) the keys from least- to most-recently-used are strictly increasing in the time of their last access, where only the seven promoting operations count as accesses (induction over histories). Theorem C05_order for every operation: keys after = surviving keys in their old relative order ++ promoted key, with the exact table of promoting operations; C05_observers: observers leave the state identical; C05_touch/remove/insert/realloc_pointer (Layer B): the list surgery acts on the abstract entry list exactly so, reallocation in any table order is the identity. Order of the implementation is read through the hook walk and cross-checked against iter()/rev()/keys()/values()/peek_lru/peek_mru/Debug after every step.', note=_A, technique=_T),
    'C10': dict(text='Theorems C10_insert / C10_try_insert: exact classification with precedence, exact payload figures, atomicity of every failure (state equality incl. table), no eviction when the entry fits. The harness compares variant, all fields, identity tokens of the returned pair and bit-for-bit pointer structure before/after.', note=_A, technique=_T),
    'C11': dict(text='Theorems C11_absent / C11_too_large / C11_ok characterise mutate for every state and size change (shrink, equal, growth that fits with minimal eviction, growth beyond the limit with exact old/new sizes and untouched remainder).', note=_A + '; closure-not-called for absent keys is a harness observation', technique=_T),
    'C04': dict(text='Theorem C04_last_store_wins: after ANY history from new/with_capacity a lookup of any key finds exactly what the client-side sequential map sm_of holds (the value most recently stored by insert/try_insert/mutate unless the key has since been reported as removed, evicted, rejected by retain, cleared or drained), by induction over histories. Theorems C04_nodup (one entry per key in every reachable state), C04_outputs / C04_insert_returns_old (every lookup, membership test, insertion, removal returns what the map says) and C04_step (every step updates the key->value map as a sequential map would, whatever the table oracle does: growth/reserve/shrink anywhere). "Any hasher / borrowed form" is the assumed hashbrown contract, exercised not proved (partial, see note).', note=_A + '; partial: independence from the hash function rests on the assumed hashbrown contract', technique=_T),
    'C06': dict(text='Theorems C06_step (per-step multiset balance of object tokens: held + introduced = held + dropped + handed back (+ leaked by a forgotten Drain)) and C06_exactly_once (any history from creation to drop: every token exactly once in dropped / returned / leaked, never two of them), C06_no_leak_without_forget; C06_exactly_once_pointer_level: the same from new_b through any run of pointer-level operations to the bucket walk of Drop. The extracted monitor c06_mon and a never-dropped-twice check run on the implementation at identity level.', note=_A + '; the ptr::read paths of owning iterators are covered at list level here and at pointer level in Layer B', technique=_T),
    'C12': dict(text='Theorems C12_split / C12_fused: for every pattern of next/next_back on every list, fronts ++ rest ++ rev backs = list, None only after exhaustion and then for ever; C12_iter / C12_drain / C12_into_iter tie the operations to that specification (drain leaves an empty, valid cache; owning iterators drop exactly the unconsumed). Item sequences of all seven iterator kinds with random patterns past exhaustion are compared.', note=_A, technique=_T),
    'C13': dict(text='Theorems over the Layer T abstraction of hashbrown capacity accounting, all oracles: C13_reserve, C13_shrink / C13_shrink_to_fit (never raises, keeps >= max(len,min)), C13_try_reserve_fail (state unchanged), C13_transparent, C13_with_capacity_step, C13_with_capacity_run (a run of any length of at most n fresh, non-evicting insertions interleaved with lookups after with_capacity(n) never changes the table and never rebuilds; induction over runs), C13_auto_growth (growth only when full, new capacity < max(4 x entries, 16)), C13_growth_bounded (over whole histories with ghost peak/request variables: full capacity < max(4 x peak len, 16) or within an explicit request, however long the churn); arithmetic of capacity_to_buckets / bucket_mask_to_capacity proved (c2b_spec). Monitors c13_mon and the history growth bound run on the implementation.', note=_A + '; tombstone behaviour of hashbrown is an oracle (over-approximated)', technique=_T),
    'C14': dict(text='Theorems C14_equal (same entries, order, recorded sizes, counters; capacity >= source), C14_fresh, C14_inv (the clone satisfies the invariant so all theorems apply to it); Layer B frame theorems C14_footprint_touch/remove/insert and C14_independent: in a shared heap the list surgery on one cache writes only the nodes of that cache, so a cache with disjoint nodes keeps its invariant and content; C14_frame_ops / C14_independent_ops / C14_independent_runs (B/FrameOps.v, B/FrameRun.v): the same for EVERY public operation of the pointer-level model (insertion with eviction and rebuild, mutate, retain, clear, drain, reserve, shrink) and for runs of any length from any reachable state; C14_clone_then_ops for a clone and its source. On the implementation independence is observed through bit-for-bit fingerprints of all other caches after every operation.', note=_A + '; the buckets hashbrown hands out are oracle values assumed not to be nodes of the other cache', technique=_T),
    'C15': dict(text='Theorem C15_retain for all predicates: visits = entries LRU to MRU once each with their own key/value, survivors = filter in order, size and drops re-accounted.', note=_A, technique=_T),
    'C20': dict(text='Theorem C20_bound for every operation, state and oracle: hashes + len after <= 2 + len before + added + (rebuilt ? len : 0), zero for traversals/clear/drain/LRU-MRU peeks/get_lru, rebuild only for reserve/try_reserve/shrink*/growing insertion; C20_clone. The implementation count of Hash::hash calls per API call must be <= the model count and satisfy the extracted bound c20_mon.', note=_A, technique=_T),
    'C18': dict(engine='coq-gen+rustc', text='Tables regenerated from /repo/src on every run by a syn translator (impl bounds, field types, signatures with the origin of every returned lifetime); Coq theorems over the finite generated tables (C18_send/C18_sync: the written bounds are exactly K,V,S; C18_not_auto: a raw pointer blocks the auto impls; C18_borrow: every returned reference/borrowing iterator carries the receiver lifetime); rustc is the oracle: ~290 generated probe programs (full (Send,Sync) witness cube per parameter, misuse/legitimate program per signature row) must be accepted/rejected as the tables predict.', note='rustc is the oracle for trait solving and borrow checking; the translator is syntactic; theorems are over generated finite tables (closed by computation)', technique='generated Coq tables + theorems, validated against rustc accept/reject of generated probe programs', ref='DESIGN.md section 7 (C18), coq/Gen/README.md'),
    'C19': dict(text='(1) Theorem C19_model_readonly: every &self operation of the model is the identity on the whole state; C19_pointer_level_readonly: every &self operation of the pointer-level model returns the identical heap, seal, list, counters and table; (2) Theorem C19_static_no_write over the call graph regenerated from the source: no write primitive is reachable from any &self operation, for all inputs; (3) on the implementation the structural fingerprint (addresses, links, sizes, scalars, geometry) read through the hook is compared before and after every &self call, for present and absent keys, and the fingerprint of every other cache after every operation.', note=_A + '; static graph is a syntactic over-approximation; thread schedules are not executed, the constant-heap argument covers them', technique='Coq proof over the model + Coq proof over a call graph generated from the source + differential fingerprint comparison'),
    'C08': dict(engine='coq-layerM+probe', text='Layer M model of src/mem_size.rs (type/value universe mirroring every override and its delegation, sizeof a Section variable): theorems C08_bulk (all four bulk helpers = element-wise sums for every nesting and list), C08_mem, C08_container, C08_wrapper, C08_depth (the flat iterator uses one frame whatever the number of empty sections), C08_flat_iterator. Tied to the code by a probe over ~300 concrete nested types with values built by random capacity scripts, eight iterator shapes, and 10^6-10^7-element runs on a 256 KiB stack in debug and release; the model is evaluated on the same terms by vm_compute.', note='Coq kernel, no axioms; sizeof is a parameter instantiated by measured numbers; totality of a Gallina function says nothing about the Rust stack: the stack clause is decided by the frame-depth model plus the large-count runs; poisoned locks excluded (DESIGN.md 9.4)', technique='Coq proof by induction on the type universe + model evaluated in Coq against the real trait implementations (differential)', ref='DESIGN.md section 7 (C08), coq/M/README.md'),
    'C09': dict(engine='coq-layerM+probe', text='Theorems C09_exact (for the exact class of constructors and any nesting, heap_size = alloc_bytes, the ground-truth model of what std keeps allocated, under len <= cap well-typedness), C09_upper, C09_map / C09_set (bounds for hash tables), C09_ref. alloc_bytes is validated against a counting global allocator on every probed value, and the real heap_size is compared with both.', note='Coq kernel, no axioms; alloc_bytes is a model of std allocation behaviour validated (exactly, on every probed value) against the counting allocator; hashbrown bucket counts recovered from capacity()', technique='Coq proof + model evaluated in Coq against the real implementation and a counting allocator (differential)', ref='DESIGN.md section 7 (C09), coq/M/README.md'),
    'C07': dict(text='Layer B (heap of nodes with links, recorded size and payload ownership; any access to a freed node or a moved-out payload faults): theorems C07_unhinge / C07_set_head / C07_touch (list surgery at every position keeps the representation invariant RI and never faults), C07_realloc (for EVERY table iteration order the reallocation loop re-links all entries, frees every old bucket, never touches freed memory, and leaves the abstract list unchanged), C07_traversal (cursors never step onto the seal). The monitor ri_check, proved sound (C07_monitor_sound), is evaluated on the implementation pointer graph read by the dangling-safe hook after every step, with address stability and lookups-hit-the-linked-bucket checks.', note='Coq kernel, no axioms; Layer B transliterates the list surgery and the reallocation loop by hand (17 pointer functions are re-translated from the source on every run and proved equal to these transliterations: Layer P); the composition of every public operation from these primitives is Layer B stepB, proved to refine Layer A (C07_public_ops_refine, C07_reachable_coherent), proved free of pointer faults (C07_no_pointer_fault, C07_no_pointer_fault_with_buckets) and run on the observed pointer graphs; the table is modelled as the set of listed buckets (hash probing is hashbrown, trusted); Rust aliasing rules not modelled', technique='Coq proof (separation-style reasoning on a functional heap, induction over arbitrary iteration orders) + extracted monitor on hook snapshots'),
    'C17': dict(text='Theorem C17_taking_run (Layer B, payload ownership): for every pattern and prefix a taking iterator never reads a moved-out payload, moves out exactly what it yielded, each once, leaves all other buckets live and links untouched; C17_drain_forget (Layer A): a forgotten Drain leaves an empty consistent cache, drops nothing, leaks exactly the unconsumed; C17_into_iter_forget. On the implementation every generated trace forgets iterators after random prefixes and keeps using and dropping the caches; any token dropped twice or dropped after being handed back is a violation.', note=_A + '; borrowing iterators own nothing', technique=_T),
    'C16': dict(text='Model of every point at which an operation calls user code (A/PanicA.v: panic_points, with the state an unwinder finds and the tokens unwinding drops). Theorem C16_all_points: for every operation, state, oracle and EVERY such point the accounting invariant holds (current_size = sum of recorded sizes <= max_size, distinct keys), nothing held appeared from nowhere, and nothing dropped by unwinding is still held; C16_closure / C16_predicate: at closure / predicate points nothing is lost except what the predicate rejected; C16_clone: the source is untouched. Correspondence: panic_trace injects a panic at every callback of every candidate operation in generated states of the real crate (debug and release); the state found after catch_unwind must be the state the model lists for that point, the pointer graph must satisfy ri_check, and the cache is used further and dropped with identity-level drop tracking.', note=_A + '; pointer-level coherence at every callback point is a theorem (C16_pointer_level_points: the pointer-level state reached at each point satisfies the representation invariant and abstracts to the modelled unwinder state); where the code calls user code is the hand-written list panic_points, tied to the code by fault injection (counts and states compared)', technique='Coq proof over a model of all callback points + systematic fault injection on the implementation compared with the model (fault enumeration)'),
}
