"""Per-property configuration of the checks: which components of the step-wise comparison and which
monitors carry the property (its projection), which operations it concerns, and which theorems
Properties/<id>.v must contain."""

ALLOWED_AXIOMS = []      # no axiom is used anywhere; the allow-list is empty

TRUSTED_BASE = [
    'Coq 8.16.1 kernel (coqc); vm_compute for closed witnesses only; no native_compute',
    'axioms: none (Print Assumptions reports "Closed under the global context" for every property theorem)',
    'extraction: ExtrOcamlBasic only (Extract Inductive for bool, option, unit, prod, list, sumbool, sumor); N/positive/nat stay inductive; no Extract Constant; OCaml 4.13.1 + zarith for decimal<->N in the driver',
    'correspondence machinery (differential testing, not proof): harness types and instrumentation (harness/src), the read-only snapshot hook (cargo feature verif-hooks), trace generator, ocaml/driver.ml comparison, tools/check.py',
    'modelled by hand, not verified: all of /repo/src; assumed and only exercised: hashbrown RawTable contract, rustc/std semantics of MaybeUninit, ptr::read, drop order, size_of (a parameter of the model)',
]

ALL_OPS = None

PROPS = {
    'C01': dict(
        comps=['fault', 'max', 'mon_c01'],
        theorems=['C01_bound', 'C01_arith', 'C01_monitor_sound'],
        assumptions=['entry_size of every presented pair fits in usize (DESIGN.md 9.2)', '0 < size_of::<Entry<K,V>>() and size_of::<V>() <= size_of::<Entry<K,V>>()'],
    ),
    'C02': dict(
        comps=['fault', 'cur', 'sizes', 'mon_c02'],
        theorems=['C02_sum', 'C02_monitor_sound'],
        assumptions=['key and value sizes change only inside mutate (the harness types guarantee it)'],
    ),
}
