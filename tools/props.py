"""Per-property configuration of the checks: which components of the step-wise comparison and which
monitors carry the property (its projection), which operations it concerns, and which theorems
Properties/<id>.v must contain."""

ALLOWED_AXIOMS = []      # no axiom is used anywhere; the allow-list is empty

TRUSTED_BASE = [
    'Coq 8.16.1 kernel (coqc); vm_compute for closed witnesses only; no native_compute',
    'axioms: none (Print Assumptions reports "Closed under the global context" for every property theorem)',
    'extraction: ExtrOcamlBasic only (Extract Inductive for bool, option, unit, prod, list, sumbool, sumor); N/positive/nat stay inductive; no Extract Constant; OCaml 4.13.1 + zarith for decimal<->N in the driver',
    'correspondence machinery (differential testing, not proof): harness types and instrumentation (harness/src), the read-only snapshot hook (cargo feature verif-hooks), trace generator, ocaml/driver.ml comparison, tools/check.py',
    'modelled by hand, not verified: all of /repo/src; assumed and only exercised: hashbrown RawTable contract, rustc/std semantics of MaybeUninit, ptr::read, drop order, size_of (a parameter of the model)',
]

ALL_OPS = None

PROPS = {
    'C01': dict(
        comps=['fault', 'max', 'mon_c01'],
        theorems=['C01_bound', 'C01_arith', 'C01_monitor_sound'],
        assumptions=['entry_size of every presented pair fits in usize (DESIGN.md 9.2)', '0 < size_of::<Entry<K,V>>() and size_of::<V>() <= size_of::<Entry<K,V>>()'],
    ),
    'C02': dict(
        comps=['fault', 'cur', 'sizes', 'mon_c02'],
        theorems=['C02_sum', 'C02_monitor_sound'],
        assumptions=['key and value sizes change only inside mutate (the harness types guarantee it)'],
    ),
    'C03': dict(
        comps=['evict_order', 'keyset', 'drops', 'fault'],
        theorems=['C03_insert', 'C03_exact_fit', 'C03_mutate', 'C03_set_max', 'C03_only_when'],
        assumptions=['eviction order is observed through the order in which the evicted keys are dropped'],
    ),
    'C05': dict(
        comps=['order', 'api'],
        theorems=['C05_order', 'C05_observers', 'C05_peeks'],
        assumptions=['iteration forward and reversed, keys(), values(), peek_lru/peek_mru and Debug are cross-checked against the pointer walk of the hook after every step (flag api)'],
    ),
    'C10': dict(
        comps=['res', 'atomic', 'keyset', 'order', 'ents', 'sizes', 'cur', 'max', 'drops', 'evict_order', 'fault'],
        ops=['insert', 'try_insert'],
        theorems=['C10_insert', 'C10_try_insert'],
    ),
    'C11': dict(
        comps=['res', 'closure_calls', 'keyset', 'order', 'ents', 'sizes', 'cur', 'max', 'drops', 'evict_order', 'fault', 'mon_c02'],
        ops=['mutate'],
        theorems=['C11_absent', 'C11_too_large', 'C11_ok'],
        assumptions=['that the closure is not called for an absent key is observed by the harness (closure call counter), not part of the Layer A theorem'],
    ),
    'C15': dict(
        comps=['visits', 'res', 'keyset', 'order', 'ents', 'sizes', 'cur', 'max', 'drops', 'fault'],
        ops=['retain'],
        theorems=['C15_retain'],
    ),
}

NOT_APPLICABLE = {}

_A = 'Coq kernel; no axioms; hand-written Layer A model of src/lib.rs + src/iter.rs validated against the real crate by step-wise differential runs (bounded by the traces run: structured random + corpus, debug and release, 5 hashers incl. all-colliding); hashbrown RawTable contract assumed'
_T = 'Coq proof (invariant / characterisation lemmas by induction over operations, all oracles) + extracted-model differential correspondence and extracted monitors on the implementation'
MANIFEST_TEXT = {
    'C01': dict(text='Theorems C01_bound / C01_arith over every reachable state of the Layer A model (all histories, limits 0..2^64-1, capacities, table oracles): bound on the counter and on the unbounded sum of size estimates, no 64-bit under/overflow, eviction loop terminates. Tied to /repo by the step-wise differential check and the extracted monitor c01_mon on the implementation.', note=_A, technique=_T),
    'C02': dict(text='Theorem C02_sum (cur = sum of recorded sizes = sum of entry_size, zero iff empty, one entry per key) over every reachable state; recorded per-entry sizes are read through the snapshot hook and compared after every step.', note=_A, technique=_T),
    'C03': dict(text='Theorems C03_insert / C03_mutate / C03_set_max: the evicted entries are exactly the shortest LRU-first prefix (minimal_prefix) computed after crediting a replaced key, never the new or mutated entry; C03_exact_fit; C03_only_when (only successful insert, growing mutate, set_max_size evict). Eviction order of the implementation is read from the drop order.', note=_A, technique=_T),
    'C05': dict(text='Theorem C05_order for every operation: keys after = surviving keys in their old relative order ++ promoted key, with the exact table of promoting operations; C05_observers: observers leave the state identical. Order of the implementation is read through the hook walk and cross-checked against iter()/rev()/keys()/values()/peek_lru/peek_mru/Debug after every step.', note=_A, technique=_T),
    'C10': dict(text='Theorems C10_insert / C10_try_insert: exact classification with precedence, exact payload figures, atomicity of every failure (state equality incl. table), no eviction when the entry fits. The harness compares variant, all fields, identity tokens of the returned pair and bit-for-bit pointer structure before/after.', note=_A, technique=_T),
    'C11': dict(text='Theorems C11_absent / C11_too_large / C11_ok characterise mutate for every state and size change (shrink, equal, growth that fits with minimal eviction, growth beyond the limit with exact old/new sizes and untouched remainder).', note=_A + '; closure-not-called for absent keys is a harness observation', technique=_T),
    'C15': dict(text='Theorem C15_retain for all predicates: visits = entries LRU to MRU once each with their own key/value, survivors = filter in order, size and drops re-accounted.', note=_A, technique=_T),
}
