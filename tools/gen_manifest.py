#!/usr/bin/env python3
"""Regenerates MANIFEST.json from tools/props.py (one place of truth for what is claimed)."""
import json, os, sys
ROOT = os.path.dirname(os.path.dirname(os.path.abspath(__file__)))
sys.path.insert(0, os.path.join(ROOT, 'tools'))
from props import PROPS, MANIFEST_TEXT, NOT_APPLICABLE

ALL = ['C%02d' % i for i in range(1, 21)]
checks = []
for pid in ALL:
    if pid not in PROPS: continue
    t = MANIFEST_TEXT[pid]
    checks.append(dict(
        property_id=pid,
        quick_cmd='python3 tools/check.py %s --tier quick' % pid,
        thorough_cmd='python3 tools/check.py %s --tier thorough' % pid,
        evidence_file='evidence/%s.json' % pid,
        replay_cmd_template='python3 tools/check.py %s --replay {path}' % pid,
        engine=t.get('engine', 'coq+correspondence'),
        level_claimed=dict(category=PROPS[pid].get('level', 'proof'), text=t['text'], design_ref=t.get('ref', 'DESIGN.md section 7 (%s)' % pid)),
        level_note=t['note'], technique=t['technique']))
na = [dict(property_id=p, reason=NOT_APPLICABLE.get(p, 'check not built yet in this revision (planned: DESIGN.md section 7); not a claim that the technique cannot apply'))
      for p in ALL if p not in PROPS]
m = dict(
    version=1, setup_cmd='sh tools/setup.sh',
    hooks=dict(guard='cargo feature verif-hooks',
               enable='harness/Cargo.toml depends on lru-mem = { path = "/repo", features = ["verif-hooks"] }; cargo rebuilds it from /repo\'s working tree on every check',
               baseline_off_cmd='cd /repo && cargo test --workspace --no-fail-fast --offline',
               source_commits=['ccea531'], add_only=True),
    engines=[dict(name='coq+correspondence', path='tools/check.py', serves_properties=[c['property_id'] for c in checks],
                  kind_free_text='Coq 8.16.1 development under coq/ (hand-written executable models of /repo/src + theorems, full .vo build, no axioms); models and Boolean monitors extracted to OCaml (bin/modelrun) and compared step by step with the real crate driven by the Rust harness (harness/), debug and release, through the read-only verif-hooks snapshot')],
    checks=checks,
    notes='Repairs of genuine defects found while building the checks are the "fix:" commits 7ec4792, 6421d73, 38e31d2, 80bbaeb, 626c9a7, 8f2d444 in /repo; they are recorded as fixed: lines in known_findings.txt. See DESIGN.md.',
    not_applicable=na)
json.dump(m, open(os.path.join(ROOT, 'MANIFEST.json'), 'w'), indent=1)
print('MANIFEST.json: %d checks, %d not claimed' % (len(checks), len(na)))
