#!/usr/bin/env python3
"""seed_summary.py RESULTS_DIR — copies the seeded defects (patch, demonstration, meta) from the sub-agents' output
directories into /verif/seeded/<property>-<n>/, adds what was run and which checks flagged them, and prints the
markdown table for DESIGN.md section 12."""
import sys, os, json, glob, shutil

ROOT = os.path.dirname(os.path.dirname(os.path.abspath(__file__)))

def main():
    resdir = sys.argv[1] if len(sys.argv) > 1 else '/root/seedres'
    confirm = {}
    cpath = os.path.join(resdir, 'confirm.json')
    if os.path.exists(cpath): confirm = json.load(open(cpath))
    rows = []
    for f in sorted(glob.glob(os.path.join(resdir, 'tmp_mut_*.json'))):
        r = json.load(open(f))
        mdir = r['mutation']
        target = r.get('target') or r.get('meta', {}).get('property')
        n = os.path.basename(mdir.rstrip('/')).replace('mut', '')
        sid = '%s-%s' % (target, n)
        dst = os.path.join(ROOT, 'seeded', sid)
        os.makedirs(dst, exist_ok=True)
        for name in ('patch.diff', 'demo.rs'):
            src = os.path.join(mdir, name)
            if os.path.exists(src): shutil.copy(src, os.path.join(dst, name))
        meta = dict(r.get('meta', {}))
        flagged = r.get('flagged_by', [])
        meta.update(dict(
            property=target,
            breaks=target,
            needs=meta.get('needs'),
            confirmed=confirm.get(sid, 'patch applies to /repo HEAD; see ran'),
            ran_by_subagent=meta.get('ran'),
            ran_here=['git -C /repo apply seeded/%s/patch.diff ; every quick_cmd of MANIFEST.json (VERIF_SEED=7) ; git -C /repo checkout -- .' % sid],
            flagged_by=flagged, detected_by_target_check=r.get('target_detected'),
            violations_of_target=(r['checks'].get(target, {}).get('violations', [])[:3] if 'checks' in r else []),
        ))
        meta.pop('ran', None)
        json.dump(meta, open(os.path.join(dst, 'meta.json'), 'w'), indent=1)
        conc, tie = [], []
        for pid_ in flagged:
            vl = r.get('checks', {}).get(pid_, {}).get('violations', [])
            (tie if vl and all('no-failing-input-found' in v for v in vl) else conc).append(pid_)
        meta_path = os.path.join(dst, 'meta.json')
        m2 = json.load(open(meta_path)); m2['flagged_with_failing_input'] = conc; m2['flagged_tie_only_no_failing_input_found'] = tie
        json.dump(m2, open(meta_path, 'w'), indent=1)
        rows.append((sid, target, (meta.get('summary') or '')[:110].replace('|', '/'), (meta.get('needs') or '')[:90].replace('|', '/'),
                     'yes' if r.get('target_detected') else 'NO', (','.join(conc) or '-') + ((' ; tie only: ' + ','.join(tie)) if tie else '')))
    print('| seeded | summary | needs | caught by its check | all checks that flag it |')
    print('|---|---|---|---|---|')
    for sid, target, summ, needs, det, fl in rows:
        print('| %s | %s | %s | %s | %s |' % (sid, summ, needs, det, fl))

if __name__ == '__main__':
    main()
