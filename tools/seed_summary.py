#!/usr/bin/env python3
"""seed_summary.py DIR=COMMIT [DIR=COMMIT ...] — copies every seeded defect (patch, demonstration, meta) from /tmp/mut/Cxx.out/mutN
into /verif/seeded/<property>-<n>/ and records, from the newest seedtest result that covers it (later arguments win), which
checks flagged it (with a failing input / only as a broken tie), the commit of /verif the run used, and what happened to
it before the checks were strengthened. tools/seed_report.py prints the table of DESIGN.md section 12 from the result."""
import sys, os, json, glob, shutil
ROOT = os.path.dirname(os.path.dirname(os.path.abspath(__file__)))
# what the first run over a seeded defect showed, where that differs from the final result
BEFORE = {
    'C19-1': 'missed by C19 at 498200c (static graph had no implicit Drop edges; ro only covered the observer API): added ro_step and drop-glue edges',
    'C20-2': 'missed by every check at 498200c (needs a tombstone-clogged table at a 7/8-of-a-power-of-two length): added the clog sweep',
    'C13-1': 'reported only as a broken tie (cap) at 498200c: added the growth clause of the monitor',
    'C06-3': 'missed (owning iterators were never advanced with nth/skip/step_by): added the f/b pattern letters',
    'C15-3': 'missed (needs a key type without and a value type with drop glue): added the type instantiations pd/dp/df/dn',
    'C12-4': 'missed (override of the by-value method last() was never called: &mut I resolves to the default): the pattern runner now owns the iterator',
    'C04-3': 'missed (needs a &str lookup aliasing a stored String key under colliding hashers): added the directed scenario c04_alias_prefix',
    'C04-4': 'missed (needs a BuildHasher whose specialised hash_one disagrees with hashing through build_hasher): added hasher kind 5',
    'C09-4': 'missed by the probe (needs the lock to be held by another thread while the estimate is taken): added the directed scenario c09_contended_lock',
    'C06-5': 'missed like C06-3 (nth on the owning iterators)',
    'C06-4': 'missed like C15-3 (one-sided drop glue)',
    'C11-4': 'missed (needs a value type narrower than a pointer whose estimate depends on its state): added the dn instantiation',
    'C10-4': 'no failing input, by decision: manifests only with a size estimator that returns different values for the same unchanged value (outside the properties; DESIGN 0.2); reported as a broken tie once Layer P2 re-translated the body of insert',
}
P2OFF = json.load(open('/root/p2_offline.json')) if os.path.exists('/root/p2_offline.json') else {}
P2_MISSING_IN = ('e54d9e6', '498200c', '6deceb7')

def main():
    runs = []
    for a in sys.argv[1:]:
        d, _, c = a.partition('=')
        runs.append((d, c or '?'))
    confirm = {}
    for cpath in ('/root/confirm_all.json',):
        if os.path.exists(cpath): confirm.update(json.load(open(cpath)))
    for mdir in sorted(glob.glob('/tmp/mut/C??.out/mut*')):
        prop = os.path.basename(os.path.dirname(mdir))[:3]
        n = os.path.basename(mdir).replace('mut', '')
        sid = '%s-%s' % (prop, n)
        res = None; commit = None; rerun = {}
        for d, c in runs:
            f = os.path.join(d, 'tmp_mut_%s.out_mut%s.json' % (prop, n))
            if not os.path.exists(f): continue
            r1 = json.load(open(f))
            if res is not None and len(r1.get('checks', {})) < 10:
                # a later run of a few checks only (after a correction of the machinery): their verdicts replace the earlier ones
                for pid_, v in r1.get('checks', {}).items(): res['checks'][pid_] = v; rerun[pid_] = c
                res['flagged_by'] = sorted(pid_ for pid_, v in res['checks'].items() if v.get('violations'))
                res['target_detected'] = prop in res['flagged_by']
            else:
                res = r1; commit = c
        dst = os.path.join(ROOT, 'seeded', sid)
        os.makedirs(dst, exist_ok=True)
        for name in ('patch.diff', 'demo.rs'):
            if os.path.exists(os.path.join(mdir, name)): shutil.copy(os.path.join(mdir, name), os.path.join(dst, name))
        try: meta = json.load(open(os.path.join(mdir, 'meta.json')))
        except Exception as ex: meta = dict(error=str(ex))
        origin = meta.pop('origin', None)
        rnd = ('2b' if origin.startswith('round2b') else '3') if origin else ('2' if n == '3' else '1')
        out = dict(property=prop, breaks=prop, round=rnd, summary=meta.get('summary'), needs=meta.get('needs'),
                   produced_by='a fresh sub-agent given only the property text' + (' and one dimension to exploit (%s)' % origin if origin else '') + ' and its own scratch worktree of /repo',
                   confirmed=confirm.get(sid, None), ran_by_subagent=meta.get('ran'),
                   ran_here=['git -C /repo apply seeded/%s/patch.diff ; every quick_cmd of MANIFEST.json (VERIF_SEED=7) ; git -C /repo checkout -- .' % sid])
        if res is not None:
            flagged = res.get('flagged_by', [])
            conc, tie = [], []
            for pid_ in flagged:
                vl = res.get('checks', {}).get(pid_, {}).get('violations', [])
                (tie if vl and all('no-failing-input-found' in v for v in vl) else conc).append(pid_)
            # Layer P2 became part of the checks after some of the runs: for those its verdict was computed afterwards on a scratch
            # copy of the source with the patch applied (static, /root/p2_offline.json) and is recorded as a broken tie
            p2 = P2OFF.get(mdir, {}) if commit in P2_MISSING_IN else {}
            for pid_, ths in p2.items():
                if pid_ not in conc and pid_ not in tie: tie.append(pid_)
                if pid_ not in flagged: flagged = sorted(flagged + [pid_])
            if p2: out['layer_p2_verdict_computed_offline'] = p2
            if rerun: out['checks_rerun_after_a_correction'] = rerun
            if prop in p2 and not res.get('target_detected'): res['target_detected'] = True
            out.update(run_commit=commit, flagged_by=flagged, flagged_with_failing_input=conc, flagged_tie_only_no_failing_input_found=tie,
                       detected_by_target_check=res.get('target_detected'),
                       violations_of_target=[v.replace('/root/.vp/runs/', 'run:') for v in res.get('checks', {}).get(prop, {}).get('violations', [])[:3]])
        if sid in BEFORE: out['first_run_result'] = BEFORE[sid]
        json.dump(out, open(os.path.join(dst, 'meta.json'), 'w'), indent=1)
    print('seeded defects recorded:', len(glob.glob(os.path.join(ROOT, 'seeded', '*'))))
if __name__ == '__main__':
    main()
