#!/usr/bin/env python3
"""seedtest.py [--out DIR] [--props C01,C02,...] MUTDIR...

Runs the registered quick checks against seeded defects. For every mutation directory (containing
patch.diff and meta.json): apply the patch to /repo (git apply), run the quick command of every
claimed property (or of --props), record exit codes and VIOLATION lines, and undo the patch
(git checkout -- .) straight afterwards. Nothing is ever committed to /repo.
Results: one JSON per mutation in DIR (default /root/seedres)."""
import sys, os, json, subprocess, time, glob

ROOT = os.path.dirname(os.path.dirname(os.path.abspath(__file__)))
REPO = '/repo'

def sh(cmd, cwd=None, timeout=3600, env=None):
    p = subprocess.run(cmd, shell=True, cwd=cwd, stdout=subprocess.PIPE, stderr=subprocess.STDOUT, text=True, timeout=timeout, env=env)
    return p.returncode, p.stdout

def main():
    args = sys.argv[1:]
    out = '/root/seedres'; props = None; muts = []
    i = 0
    while i < len(args):
        if args[i] == '--out': out = args[i + 1]; i += 2
        elif args[i] == '--props': props = args[i + 1].split(','); i += 2
        else: muts.append(args[i]); i += 1
    os.makedirs(out, exist_ok=True)
    manifest = json.load(open(os.path.join(ROOT, 'MANIFEST.json')))
    checks = [c for c in manifest['checks'] if props is None or c['property_id'] in props]
    rc, st = sh('git -C %s status --porcelain -- src Cargo.toml' % REPO)
    if st.strip():
        print('refusing to run: /repo has uncommitted changes:\n' + st); return 2
    env = dict(os.environ, VERIF_SEED=os.environ.get('VERIF_SEED', '7'), VERIF_TIER='quick')
    for m in muts:
        name = m.rstrip('/').replace('/', '_').strip('_')
        res = dict(mutation=m, started=time.time(), checks={})
        try: res['meta'] = json.load(open(os.path.join(m, 'meta.json')))
        except Exception as ex: res['meta'] = dict(error=str(ex))
        patch = os.path.join(m, 'patch.diff')
        rc, o = sh('git -C %s apply --check %s' % (REPO, patch))
        if rc != 0:
            res['error'] = 'patch does not apply: ' + o[-500:]
            json.dump(res, open(os.path.join(out, name + '.json'), 'w'), indent=1); print(name, 'PATCH-FAILS'); continue
        try:
            sh('git -C %s apply %s' % (REPO, patch))
            for c in checks:
                t0 = time.time()
                try:
                    rc, o = sh(c['quick_cmd'], cwd=ROOT, env=env, timeout=2400)
                except subprocess.TimeoutExpired:
                    rc, o = 124, 'TIMEOUT'
                viol = [l for l in o.split('\n') if l.startswith('VIOLATION')]
                res['checks'][c['property_id']] = dict(exit=rc, violations=viol, wall_s=round(time.time() - t0, 1), tail=o[-1200:] if rc != 0 else '')
                # keep the replay files of the target property for the record
        finally:
            sh('git -C %s checkout -- .' % REPO)
            sh('git -C %s clean -fdq -- src' % REPO)
        flagged = sorted(p for p, r in res['checks'].items() if r['exit'] != 0)
        res['flagged_by'] = flagged
        res['target'] = res['meta'].get('property')
        res['target_detected'] = res['target'] in flagged
        res['wall_s'] = round(time.time() - res['started'], 1)
        json.dump(res, open(os.path.join(out, name + '.json'), 'w'), indent=1)
        print('%s target=%s detected_by_target=%s flagged_by=%s (%.0fs)' % (name, res['target'], res['target_detected'], ','.join(flagged), res['wall_s']), flush=True)
    # unchanged tree afterwards: every check must be quiet
    rc, st = sh('git -C %s status --porcelain -- src Cargo.toml' % REPO)
    print('repo clean afterwards:', not st.strip())
    return 0

if __name__ == '__main__':
    sys.exit(main())
