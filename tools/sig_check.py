#!/usr/bin/env python3
"""sig_check.py - Layer G engine: property C18 and the static half of C19.

    python3 tools/sig_check.py C18 [--tier quick|thorough] [--replay FILE]
    python3 tools/sig_check.py C19S            # prints the result of c19_static()
    python3 tools/sig_check.py --regen         # only regenerate coq/Gen/Sigs.v from the source

Used by tools/check.py through  main(pid, tier, seed, replay) -> int  (engine 'sig_check') and
c19_static() -> (ok, details).

One run = (1) /verif/sigdump (a syn-based translator, rebuilt when its source changed) regenerates
the Coq tables Gen/Sigs.v from $VERIF_REPO/src (default /repo); (2) Gen/GenDefs.v, Gen/Sigs.v,
Gen/GenProps.v, Gen/C19Static.v and Properties/C18.v are recompiled against the regenerated tables
in a scratch directory (coqc, stdlib only) and audited (no Admitted/Axiom/..., Print Assumptions
closed); (3) probe programs are generated from the same tables and compiled with rustc against the
crate built from the working tree; rustc's accept/reject is compared with what the property demands
and with what the Coq tables predict (the predictions are computed by Coq: Gen/Predict.v, generated
here, `Eval vm_compute`); (4) verdict per DESIGN.md section 5, evidence/C18.json.

rustc accepting a program the property forbids (or rejecting one it requires to be accepted) is a
violation with the program as replay.  A theorem or the table/rustc correspondence that no longer
checks without such a program is reported with `no-failing-input-found`.
"""
import sys, os, re, json, time, hashlib, subprocess, shutil, fcntl, itertools, concurrent.futures

ROOT = os.path.dirname(os.path.dirname(os.path.abspath(__file__)))
CACHE = os.path.join(ROOT, '.cache')
GDIR = os.path.join(CACHE, 'g')
TARGET_G = os.path.join(CACHE, 'target-g')
DEFAULT_REPO = '/repo'
COQ_FILES = ['Gen/GenDefs.v', 'Gen/Sigs.v', 'Gen/GenProps.v', 'Properties/C18.v', 'Gen/C19Static.v']
C18_CONE = ['Gen/GenDefs.v', 'Gen/Sigs.v', 'Gen/GenProps.v', 'Properties/C18.v']
C19_CONE = ['Gen/GenDefs.v', 'Gen/Sigs.v', 'Gen/C19Static.v']
FORBIDDEN = re.compile(r'\b(Admitted|admit|Axiom|Axioms|Parameter|Parameters|Conjecture|Conjectures|Unset\s+Guard|bypass_check|Admit\s+Obligations|type-in-type|impredicative-set|Unset\s+Positivity|Unset\s+Universe)\b')
BORROW_CODES = ('E0499', 'E0502', 'E0505', 'E0506', 'E0597', 'E0713', 'E0716')
MOVE_CODES = ('E0382',)

TRUSTED_BASE = [
    'Coq 8.16.1 kernel (coqc); vm_compute over the finite generated tables; no native_compute; no axioms (Print Assumptions: Closed under the global context)',
    '/verif/sigdump (syn 2.0 translator): syntactic; sound only for the idioms it recognises - what it does not recognise is recorded as a write primitive / an irregular row and listed in translator_warnings; method calls are resolved by name and arity; a method name defined in the scanned files is assumed to dispatch there; implicit drops are edges to drop_glue(T) for every scanned type T a value of which may exist in a body (struct literals, declared return types of the scanned callees, by-value parameters, typed bindings, fields), not tracked: drops performed inside foreign containers of scanned types whose type is written nowhere in the function, values hidden behind a foreign trait object',
    'rustc 1.95.0 is the oracle for C18: what the trait solver and the borrow checker accept is observed on probe programs, not modelled',
    'the probe generator and comparison in tools/sig_check.py (witness types: Cell<u8> is Send+!Sync, MutexGuard<\'static,u8> is !Send+Sync, Rc<u8> is neither, u64/RandomState are both)',
    'thread scheduling is not modelled (C19 static: a syntactic over-approximation of writes, for all inputs)',
]


def repo_path():
    return os.path.abspath(os.environ.get('VERIF_REPO', DEFAULT_REPO))


def env():
    e = dict(os.environ, CARGO_NET_OFFLINE='true')
    e.pop('RUSTFLAGS', None)
    return e


def sh(cmd, cwd=None, timeout=1800, extra_env=None):
    e = env()
    if extra_env: e.update(extra_env)
    try:
        p = subprocess.run(cmd, cwd=cwd, env=e, stdout=subprocess.PIPE, stderr=subprocess.STDOUT, timeout=timeout,
                           shell=isinstance(cmd, str), text=True, errors='replace')
        return p.returncode, p.stdout
    except subprocess.TimeoutExpired as ex:
        return 124, 'timeout after %ss: %s' % (timeout, ex)


class Lock:
    def __init__(self, name): self.path = os.path.join(CACHE, name + '.lock')
    def __enter__(self):
        os.makedirs(CACHE, exist_ok=True)
        self.f = open(self.path, 'w'); fcntl.flock(self.f, fcntl.LOCK_EX); return self
    def __exit__(self, *a):
        fcntl.flock(self.f, fcntl.LOCK_UN); self.f.close()


def sha(*parts):
    h = hashlib.sha256()
    for p in parts:
        h.update(p if isinstance(p, bytes) else str(p).encode()); h.update(b'\0')
    return h.hexdigest()


def strip_comments(src):
    out = []; depth = 0; i = 0
    while i < len(src):
        if src.startswith('(*', i): depth += 1; i += 2
        elif src.startswith('*)', i) and depth > 0: depth -= 1; i += 2
        else:
            if depth == 0: out.append(src[i])
            i += 1
    return ''.join(out)


# ------------------------------------------------------------------------------------------------
# 1. translator
# ------------------------------------------------------------------------------------------------
def build_sigdump():
    """(binary path or None, log)"""
    src = os.path.join(ROOT, 'sigdump')
    rc, out = sh('timeout 900 cargo build --offline 2>&1', cwd=src, timeout=1000, extra_env={'CARGO_TARGET_DIR': TARGET_G})
    exe = os.path.join(TARGET_G, 'debug', 'sigdump')
    if rc != 0 or not os.path.exists(exe):
        return None, out[-2000:]
    return exe, ''


def regenerate(repo):
    """runs the translator; returns dict(ok, sigs_v (text), tables (json), log, warnings)"""
    os.makedirs(GDIR, exist_ok=True)
    exe, log = build_sigdump()
    if not exe:
        return dict(ok=False, log='sigdump does not build: ' + log)
    tag = sha(repo)[:10]
    out_v = os.path.join(GDIR, 'Sigs-%s.v' % tag); out_j = os.path.join(GDIR, 'sigs-%s.json' % tag)
    for p in (out_v, out_j):
        if os.path.exists(p): os.remove(p)
    rc, out = sh([exe, out_v, out_j], extra_env={'VERIF_REPO': repo}, timeout=120)
    if rc != 0 or not os.path.exists(out_v) or not os.path.exists(out_j):
        return dict(ok=False, log='sigdump failed on %s/src: %s' % (repo, out[-2000:]))
    sigs_v = open(out_v).read()
    tables = json.load(open(out_j))
    if repo == DEFAULT_REPO:
        # keep the in-tree copy (the one `make` of the whole development compiles) equal to the source
        intree = os.path.join(ROOT, 'coq', 'Gen', 'Sigs.v')
        old = open(intree).read() if os.path.exists(intree) else None
        if old != sigs_v:
            tmp = intree + '.tmp%d' % os.getpid()
            open(tmp, 'w').write(sigs_v); os.replace(tmp, intree)
    return dict(ok=True, sigs_v=sigs_v, tables=tables, log=out, sigs_v_path=out_v, json_path=out_j)


# ------------------------------------------------------------------------------------------------
# 2. Coq
# ------------------------------------------------------------------------------------------------
def predict_v(tables):
    """Gen/Predict.v: the predictions, computed by Coq from the generated tables"""
    L = ['(* generated by tools/sig_check.py: predictions of the generated tables, evaluated by Coq *)',
         'From Coq Require Import String List Bool.',
         'Require Import LruV.Gen.GenDefs LruV.Gen.Sigs.',
         'Import ListNotations.', 'Open Scope string_scope.', 'Open Scope list_scope.',
         'Definition vals4 : list (bool * bool) := [(true, true); (true, false); (false, true); (false, false)].',
         'Definition cube (tr : string) : list bool :=',
         '  flat_map (fun k => flat_map (fun v => map (fun s => marker_holds marker_impls structs tr "LruCache" [k; v; s]) vals4) vals4) vals4.',
         'Definition all_good (s : struct_info) : list (bool * bool) := map (fun _ => (true, true)) (st_tparams s).',
         'Definition c19_graph : list fn_node := c19_graph_of "LruCache::clone" "LruCache::clone@source" fns.',
         'Eval vm_compute in "TAG:send_cube".', 'Eval vm_compute in (cube "Send").',
         'Eval vm_compute in "TAG:sync_cube".', 'Eval vm_compute in (cube "Sync").',
         'Eval vm_compute in "TAG:tied".', 'Eval vm_compute in (map tied_to_self sigs).',
         'Eval vm_compute in "TAG:borrow".', 'Eval vm_compute in (map has_borrow sigs).',
         'Eval vm_compute in "TAG:misuse".', 'Eval vm_compute in (map predict_misuse_rejected sigs).',
         'Eval vm_compute in "TAG:blocked".', 'Eval vm_compute in (map (fun s => auto_blocked structs (st_name s)) structs).',
         'Eval vm_compute in "TAG:struct_send".', 'Eval vm_compute in (map (fun s => marker_holds marker_impls structs "Send" (st_name s) (all_good s)) structs).',
         'Eval vm_compute in "TAG:struct_sync".', 'Eval vm_compute in (map (fun s => marker_holds marker_impls structs "Sync" (st_name s) (all_good s)) structs).',
         'Eval vm_compute in "TAG:nowrite".', 'Eval vm_compute in (map (no_write_reachable c19_graph) (map fn_name fns)).',
         'Eval vm_compute in "TAG:end".']
    return '\n'.join(L) + '\n'


def parse_predictions(out):
    res = {}
    flat = ' '.join(out.split())
    for m in re.finditer(r'= "TAG:(\w+)" : string(.*?)(?== "TAG:|$)', flat):
        tag, body = m.group(1), m.group(2)
        mm = re.search(r'= \[(.*?)\] : list bool', body)
        if mm is not None:
            res[tag] = [x.strip() == 'true' for x in mm.group(1).split(';') if x.strip()]
        elif re.search(r'= (\[\]|nil) : list bool', body):
            res[tag] = []
    return res


def lemma_at(src, line):
    name = None
    for i, l in enumerate(src.split('\n'), 1):
        if i > line: break
        m = re.match(r'\s*(?:Theorem|Lemma|Corollary|Example|Fact|Remark|Proposition)\s+(\w+)', l)
        if m: name = m.group(1)
    return name


def count_lemmas(src, upto=None):
    n = 0
    for i, l in enumerate(strip_comments(src).split('\n'), 1):
        if upto is not None and i >= upto: break
        if re.match(r'\s*(?:Local\s+|Global\s+)?(?:Theorem|Lemma|Corollary|Example|Fact|Remark|Proposition)\s', l): n += 1
    return n


def coq_check(sigs_v, tables):
    """compile the Layer G files against the given Sigs.v in a scratch directory (cached by content)"""
    srcs = {}
    for f in COQ_FILES:
        srcs[f] = sigs_v if f == 'Gen/Sigs.v' else open(os.path.join(ROOT, 'coq', f)).read()
    srcs['Gen/Predict.v'] = predict_v(tables)
    key = sha(*[k + '\n' + v for k, v in sorted(srcs.items())])[:20]
    bdir = os.path.join(GDIR, 'build-' + key)
    resf = os.path.join(bdir, 'result.json')
    if os.path.exists(resf):
        r = json.load(open(resf)); r['cached'] = True; return r
    shutil.rmtree(bdir, ignore_errors=True)
    for f, s in srcs.items():
        os.makedirs(os.path.dirname(os.path.join(bdir, f)), exist_ok=True)
        open(os.path.join(bdir, f), 'w').write(s)
    res = dict(key=key, dir=bdir, files={}, cached=False)
    t0 = time.time()
    failed = set()
    deps = {'Gen/GenDefs.v': [], 'Gen/Sigs.v': ['Gen/GenDefs.v'], 'Gen/GenProps.v': ['Gen/GenDefs.v', 'Gen/Sigs.v'],
            'Gen/Predict.v': ['Gen/GenDefs.v', 'Gen/Sigs.v'],
            'Properties/C18.v': ['Gen/GenProps.v'], 'Gen/C19Static.v': ['Gen/GenDefs.v', 'Gen/Sigs.v']}
    def compile_one(f):
        rc, out = sh('timeout 600 coqc -q -Q . LruV %s 2>&1' % f, cwd=bdir, timeout=660)
        return f, rc, out
    # GenDefs, Sigs in order; then GenProps, Predict and C19Static in parallel; then C18
    for stage in (['Gen/GenDefs.v'], ['Gen/Sigs.v'], ['Gen/GenProps.v', 'Gen/Predict.v', 'Gen/C19Static.v'], ['Properties/C18.v']):
        todo = [f for f in stage if not any(d in failed for d in deps[f])]
        for f in stage:
            if f not in todo:
                failed.add(f)
                res['files'][f] = dict(ok=False, skipped=True, error='not compiled: a file it requires failed', out='')
        with concurrent.futures.ThreadPoolExecutor(max_workers=4) as ex:
            for f, rc, out in ex.map(compile_one, todo):
                info = dict(ok=(rc == 0), skipped=False, out=out[-6000:] if f != 'Gen/Predict.v' else out)
                if rc != 0:
                    failed.add(f)
                    m = re.search(r'File "([^"]+)", line (\d+)', out)
                    line = int(m.group(2)) if m else 0
                    info['line'] = line
                    info['lemma'] = lemma_at(srcs[f], line) if line else None
                    em = re.search(r'\nError:?\s*(.*)', out, re.S)
                    info['error'] = ' '.join((em.group(1) if em else out).split())[:600]
                res['files'][f] = info
    res['wall_s'] = round(time.time() - t0, 2)
    # audit
    audit = []
    for f, s in srcs.items():
        m = FORBIDDEN.search(strip_comments(s))
        if m: audit.append('forbidden vernacular %r in %s' % (m.group(0), f))
    for f in ('Properties/C18.v', 'Gen/C19Static.v'):
        info = res['files'][f]
        if info['ok']:
            n_pa = len(re.findall(r'^\s*Print Assumptions', strip_comments(srcs[f]), re.M))
            closed = info['out'].count('Closed under the global context')
            info['print_assumptions'] = dict(commands=n_pa, closed=closed)
            if n_pa == 0 or closed != n_pa or 'Axioms:' in info['out']:
                audit.append('%s: %d Print Assumptions commands, %d closed%s' % (f, n_pa, closed, ' (axioms reported)' if 'Axioms:' in info['out'] else ''))
            info['theorems'] = re.findall(r'^\s*(?:Theorem|Corollary)\s+(\w+)', strip_comments(srcs[f]), re.M)
    res['audit'] = audit
    res['predictions'] = parse_predictions(res['files']['Gen/Predict.v']['out']) if res['files']['Gen/Predict.v']['ok'] else {}
    res['files']['Gen/Predict.v']['out'] = res['files']['Gen/Predict.v']['out'][-1500:]
    # obligations
    obl = {}
    for f in COQ_FILES:
        info = res['files'][f]
        total = count_lemmas(srcs[f])
        if info['ok']: done = total
        elif info.get('skipped'): done = 0
        else: done = count_lemmas(srcs[f], info.get('line') or 1) - (1 if info.get('lemma') else 0)
        obl[f] = [total, max(done, 0)]
    res['obligations'] = obl
    json.dump(res, open(resf, 'w'))
    # keep the newest few build directories
    builds = sorted([os.path.join(GDIR, d) for d in os.listdir(GDIR) if d.startswith('build-')], key=os.path.getmtime)
    for old in builds[:-6]:
        if old != bdir: shutil.rmtree(old, ignore_errors=True)
    return res


def coqchk(coq, libs):
    """thorough tier: independent re-check of the compiled files with coqchk (cached in the build directory)"""
    f = os.path.join(coq['dir'], 'coqchk-%s.json' % sha(*libs)[:8])
    if os.path.exists(f): return json.load(open(f))
    rc, out = sh('timeout 900 coqchk -o -silent -Q . LruV %s 2>&1' % ' '.join(libs), cwd=coq['dir'], timeout=960)
    m = re.search(r'\* Axioms:\s*(.*?)\n\s*\n', out, re.S)
    res = dict(ok=(rc == 0), axioms=(' '.join(m.group(1).split()) if m else '?'), tail=out[-600:])
    json.dump(res, open(f, 'w'))
    return res


def cone_status(coq, cone):
    """(ok, problems[list of str], broken theorem names)"""
    problems = []; names = []
    for f in cone:
        info = coq['files'].get(f)
        if info is None or not info['ok']:
            if info and info.get('skipped'): continue
            lemma = info.get('lemma') if info else None
            problems.append('%s does not compile%s: %s' % (f, (' at ' + lemma) if lemma else '', (info or {}).get('error', '')))
            names.append('%s:%s' % (f, lemma or '?'))
    for a in coq.get('audit', []):
        if any(a.startswith(f) or (' in ' + f) in a for f in cone): problems.append(a)
    return (not problems), problems, names


# ------------------------------------------------------------------------------------------------
# 3. rustc probes
# ------------------------------------------------------------------------------------------------
def build_crate(repo):
    """(rlib, deps dir, log) - the crate built from the working tree into a scratch target directory"""
    tdir = os.path.join(TARGET_G, 'repo' if repo == DEFAULT_REPO else 'repo-' + sha(repo)[:10])
    rc, out = sh('timeout 900 cargo build --offline --lib 2>&1', cwd=repo, timeout=1000, extra_env={'CARGO_TARGET_DIR': tdir})
    rlib = os.path.join(tdir, 'debug', 'liblru_mem.rlib')
    if rc != 0 or not os.path.exists(rlib):
        return None, None, out[-3000:], tdir
    return rlib, os.path.join(tdir, 'debug', 'deps'), '', tdir


def rustc_probe(args):
    path, rlib, deps = args
    out = path[:-3] + '.rmeta'
    cmd = ['rustc', '--edition', '2021', '--emit=metadata', '--error-format=short', '--cap-lints', 'allow',
           '--extern', 'lru_mem=' + rlib, '-L', 'dependency=' + deps, path, '-o', out]
    try:
        p = subprocess.run(cmd, env=env(), stdout=subprocess.PIPE, stderr=subprocess.STDOUT, timeout=120, text=True, errors='replace')
        rc, txt = p.returncode, p.stdout
    except subprocess.TimeoutExpired:
        rc, txt = 124, 'timeout'
    try: os.remove(out)
    except OSError: pass
    codes = sorted(set(re.findall(r'error\[(E\d+)\]', txt)))
    other = bool(re.search(r'^error(?!\[)', txt, re.M)) and not codes
    return dict(accepted=(rc == 0), codes=codes, other_error=other, output=txt[-1200:])


WITNESS = {  # (is Send, is Sync) -> a type with exactly these
    (True, True): 'u64', (True, False): 'std::cell::Cell<u8>',
    (False, True): "std::sync::MutexGuard<'static, u8>", (False, False): 'std::rc::Rc<u8>',
}
VALS4 = [(True, True), (True, False), (False, True), (False, False)]
GOOD = {'K': 'u64', 'V': 'u64', 'S': 'std::collections::hash_map::RandomState'}


def marker_probes(tables, pred):
    """programs for Send/Sync of LruCache: generic positive, the full 4x4x4 cube per marker (it contains the
    2x7 negative obligations), and the iterator structs (auto impls)"""
    P = []
    for tr in ('Send', 'Sync'):
        low = tr.lower()
        # generic positive obligation
        P.append(dict(name='%s_generic' % low, group='marker-generic', trait=tr,
                      src='use lru_mem::LruCache;\nfn assert_%s<T: %s>() {}\nfn generic<K: %s, V: %s, S: %s>() { assert_%s::<LruCache<K, V, S>>(); }\nfn main() {}\n' % (low, tr, tr, tr, tr, low),
                      demand='accept', why='%s for all K, V, S: %s (generic)' % (tr, tr),
                      predicted=None))  # prediction filled below from the cube: all three (T only)
        cube = pred.get('%s_cube' % low)
        idx = 0
        for k in VALS4:
            for v in VALS4:
                for s in VALS4:
                    has = [x[0] if tr == 'Send' else x[1] for x in (k, v, s)]
                    bad = [n for n, h in zip('KVS', has) if not h]
                    ty = 'LruCache<%s, %s, %s>' % (WITNESS[k] if k != (True, True) else GOOD['K'], WITNESS[v] if v != (True, True) else GOOD['V'], WITNESS[s] if s != (True, True) else GOOD['S'])
                    tagname = ''.join('%d%d' % (int(a), int(b)) for a, b in (k, v, s))
                    P.append(dict(name='%s_%s' % (low, tagname), group='marker-cube', trait=tr, vals=[list(k), list(v), list(s)],
                                  src='use lru_mem::LruCache;\nfn assert_%s<T: %s>() {}\nfn main() { assert_%s::<%s>(); }\n' % (low, tr, low, ty),
                                  demand='accept' if not bad else 'reject', codes=('E0277',),
                                  why=('all of K, V, S are %s' % tr) if not bad else ('%s is not %s' % (', '.join(bad), tr)),
                                  nbad=len(bad), other_bad=sum(1 for x in (k, v, s) if not (x[1] if tr == 'Send' else x[0])),
                                  predicted=(None if cube is None or len(cube) != 64 else ('accept' if cube[idx] else 'reject'))))
                    idx += 1
        # generic: each parameter has T and nothing else is known -> cube entry where the other marker is false
        if cube is not None and len(cube) == 64:
            v = (True, False) if tr == 'Send' else (False, True)
            i = VALS4.index(v)
            P[[p['name'] for p in P].index('%s_generic' % low)]['predicted'] = 'accept' if cube[i * 16 + i * 4 + i] else 'reject'
    # iterator structs: no manual impl, a raw pointer inside -> neither Send nor Sync
    structs = tables['structs']
    for tr in ('Send', 'Sync'):
        low = tr.lower()
        sp = pred.get('struct_%s' % low)
        for i, s in enumerate(structs):
            if not s['pub'] or s['file'] != 'src/iter.rs': continue
            args = ["'static"] * len(s['lifetimes']) + [GOOD.get(p, 'u64') for p in s['tparams']]
            ty = 'lru_mem::%s<%s>' % (s['name'], ', '.join(args)) if args else 'lru_mem::' + s['name']
            P.append(dict(name='%s_struct_%s' % (low, s['name']), group='marker-struct', trait=tr,
                          src='fn assert_%s<T: %s>() {}\nfn main() { assert_%s::<%s>(); }\n' % (low, tr, low, ty),
                          demand=None, codes=('E0277',), why='auto impl of %s for %s with Send+Sync parameters' % (tr, s['name']),
                          predicted=(None if sp is None or len(sp) != len(structs) else ('accept' if sp[i] else 'reject'))))
    return P


def closure_for(bound):
    m = re.match(r'Fn(?:Mut|Once)?\s*\((.*)\)\s*(?:->\s*(.*))?$', bound)
    if not m: return None
    args = [a for a in re.split(r',\s*', m.group(1)) if a.strip()]
    ret = (m.group(2) or '').strip()
    body = {'bool': 'true', '': '()', '()': '()', 'R': '5u8', 'usize': '0usize'}.get(ret)
    if body is None: return None
    return '|%s| %s' % (', '.join('_a%d' % i for i in range(len(args))), body)


def synth_arg(p, tparams):
    ty = re.sub(r"&'\w+\s*", '&', p['ty']).replace(' ', '')      # `&'k Q` -> `&Q`
    table = {'usize': '8usize', 'u64': '1u64', 'bool': 'true', 'K': '1u64', 'V': '2u64', '&K': '&1u64', '&V': '&2u64', '&Q': '&1u64',
             'S': 'std::collections::hash_map::RandomState::new()'}
    if ty in table: return table[ty]
    bounds = dict((a, b) for a, b in tparams)
    if ty in bounds:
        for b in bounds[ty]:
            c = closure_for(b)
            if c: return c
    return None


PRELUDE = '#![allow(unused)]\nuse lru_mem::LruCache;\nuse std::collections::hash_map::RandomState;\nfn use_it<T>(_t: T) {}\n'
SETUP = '    let mut c: LruCache<u64, u64, RandomState> = LruCache::with_hasher(4096, RandomState::new());\n    let _ = c.insert(1u64, 2u64);\n    let _ = c.insert(3u64, 4u64);\n'


def call_expr(f):
    """the expression that calls row function f on the cache `c`, or None when it cannot be synthesised"""
    tparams = f['tparams']
    if f['trait'] == 'Debug' or (f['trait'] and f['name'] == 'fmt'): return 'format!("{:?}", c)'
    if f['trait'] == 'Drop': return None
    args = []
    for p in f['params']:
        a = synth_arg(p, tparams)
        if a is None: return None
        args.append(a)
    if f['recv'] == 'RecvNone':
        has_s = any(a == 'S' for a, _ in tparams)
        ty = 'LruCache::<u64, u64, RandomState>' if has_s else 'LruCache::<u64, u64>'
        return '%s::%s(%s)' % (ty, f['name'], ', '.join(args))
    return 'c.%s(%s)' % (f['name'], ', '.join(args))


def sig_probes(tables, pred, tier='quick'):
    fns = dict((f['qname'], f) for f in tables['fns'])
    rows = tables['sigs']
    P = []; notes = []
    tied = pred.get('tied'); borrow = pred.get('borrow'); misuse = pred.get('misuse')
    okpred = all(x is not None and len(x) == len(rows) for x in (tied, borrow, misuse))
    # which public function hands out each iterator struct
    producer = {}
    for r in rows:
        f = fns[r['fn']]
        if r['kind'] in ('KPub', 'KTrait') and f['recv'] != 'RecvNone':
            head = re.match(r'(\w+)', f['ret'])
            if head and head.group(1) not in producer and call_expr(f): producer[head.group(1)] = f
    # reverse call graph restricted to what a public LruCache function reaches
    pubs = [fns[r['fn']] for r in rows if r['kind'] in ('KPub', 'KTrait')]
    def reaches(f, target, seen=None):
        seen = seen or set()
        for c in f['callees']:
            if c == target: return True
            if c in seen or c not in fns: continue
            seen.add(c)
            if fns[c]['self_type'] != 'LruCache' and reaches(fns[c], target, seen): return True
        return False
    for i, r in enumerate(rows):
        f = fns[r['fn']]
        row = dict(row=f['qname'], kind=r['kind'], recv=f['recv'], ret=f['ret'], carriers=f['carriers'], where='%s:%d' % (f['file'], f['line']))
        has_b = bool(f['carriers'])
        pm = (None if not okpred else ('reject' if misuse[i] else 'accept'))
        base = re.sub(r'\W+', '_', f['qname'])
        if r['kind'] in ('KPub', 'KTrait'):
            ce = call_expr(f)
            if ce is None:
                notes.append(dict(row=f['qname'], probed=False, has_borrow=has_b,
                                  why='not callable from a program (Drop::drop)' if f['trait'] == 'Drop' else 'no argument synthesis for its parameter types'))
                continue
            if f['recv'] in ('RecvRef', 'RecvMut'):
                variants = [('mutate', 'c.clear();'), ('drop', 'drop(c);')]
                if tier == 'thorough':
                    variants += [('assign', 'c = LruCache::with_hasher(8, RandomState::new());'), ('move', 'let moved = c;'),
                                 ('insert', 'let _ = c.insert(9u64, 9u64);'), ('shrink', 'c.shrink_to_fit();')]
                for tag, mut in variants:
                    P.append(dict(name='%s__misuse_%s' % (base, tag), group='sig-misuse', row=row,
                                  src=PRELUDE + 'fn main() {\n' + SETUP + '    let held = %s;\n    %s\n    use_it(held);\n}\n' % (ce, mut),
                                  demand='reject' if has_b else 'accept', codes=BORROW_CODES, predicted=pm,
                                  why='the result of %s is kept across `%s`' % (f['qname'], mut)))
                P.append(dict(name='%s__legit' % base, group='sig-legit', row=row,
                              src=PRELUDE + 'fn main() {\n' + SETUP + '    let held = %s;\n    use_it(held);\n    c.clear();\n    drop(c);\n}\n' % ce,
                              demand='accept', predicted='accept', why='the result of %s is used before the cache is mutated' % f['qname']))
            elif f['recv'] == 'RecvVal':
                P.append(dict(name='%s__misuse_mutate' % base, group='sig-misuse', row=row,
                              src=PRELUDE + 'fn main() {\n' + SETUP + '    let held = %s;\n    c.clear();\n    use_it(held);\n}\n' % ce,
                              demand='reject', codes=MOVE_CODES, predicted=pm, why='%s consumes the cache; it cannot be touched afterwards' % f['qname']))
                P.append(dict(name='%s__legit' % base, group='sig-legit', row=row,
                              src=PRELUDE + 'fn main() {\n' + SETUP + '    let held = %s;\n    use_it(held);\n}\n' % ce,
                              demand='accept', predicted='accept', why='%s consumes the cache' % f['qname']))
            else:
                P.append(dict(name='%s__misuse_mutate' % base, group='sig-misuse', row=row,
                              src=PRELUDE + 'fn main() {\n' + SETUP + '    let held = %s;\n    c.clear();\n    use_it(held);\n}\n' % ce,
                              demand='accept', codes=BORROW_CODES, predicted=pm, why='%s has no receiver: nothing is obtained from the cache `c`' % f['qname']))
                P.append(dict(name='%s__legit' % base, group='sig-legit', row=row,
                              src=PRELUDE + 'fn main() {\n' + SETUP + '    let held = %s;\n    use_it(held);\n    c.clear();\n}\n' % ce,
                              demand='accept', predicted='accept', why='constructor'))
        elif r['kind'] == 'KCtor':
            via = [p['qname'] for p in pubs if reaches(p, f['qname'])]
            notes.append(dict(row=f['qname'], probed=False, has_borrow=has_b, covered_by=via,
                              why='crate-private constructor: exercised through the public functions that call it'))
        elif r['kind'] == 'KIter':
            st = f['self_type']
            prod = producer.get(st)
            if prod is None:
                notes.append(dict(row=f['qname'], probed=False, has_borrow=has_b, why='no public function returns %s' % st))
                continue
            ce = call_expr(prod)
            byval = prod['recv'] == 'RecvVal'
            mut = '' if byval else '    c.clear();\n'
            # arguments of the iterator method itself (nth(n), nth_back(n), ...): synthesised like those of the cache's methods
            iargs = []
            for p_ in f.get('params', []):
                a_ = synth_arg(p_, f['tparams'])
                iargs.append(a_)
            if any(a_ is None for a_ in iargs):
                notes.append(dict(row=f['qname'], probed=False, has_borrow=has_b, why='no argument synthesis for its parameter types'))
                continue
            icall = '%s(%s)' % (f['name'], ', '.join(iargs))
            dropit = '' if f['recv'] == 'RecvVal' else '    drop(it);\n'     # a by-value method (last, count, ...) consumes the iterator itself
            P.append(dict(name='%s__misuse_mutate' % base, group='sig-misuse', row=row,
                          src=PRELUDE + 'fn main() {\n' + SETUP + '    let mut it = %s;\n    let held = it.%s;\n%s%s    use_it(held);\n}\n' % (ce, icall, dropit, mut),
                          demand='reject' if has_b else 'accept', codes=BORROW_CODES, predicted=pm,
                          why='an item of %s (from %s) is kept after the iterator is gone and the cache is mutated' % (st, prod['qname'])))
            P.append(dict(name='%s__legit' % base, group='sig-legit', row=row,
                          src=PRELUDE + 'fn main() {\n' + SETUP + '    let mut it = %s;\n    let held = it.%s;\n    use_it(held);\n%s%s}\n' % (ce, icall, dropit, mut),
                          demand='accept', predicted='accept', why='item used before the cache is mutated'))
    return P, notes


def run_probes(probes, rlib, deps, pdir):
    shutil.rmtree(pdir, ignore_errors=True); os.makedirs(pdir)
    for p in probes:
        p['path'] = os.path.join(pdir, p['name'] + '.rs')
        open(p['path'], 'w').write(p['src'])
    with concurrent.futures.ThreadPoolExecutor(max_workers=16) as ex:
        for p, r in zip(probes, ex.map(rustc_probe, [(p['path'], rlib, deps) for p in probes])):
            p['rustc'] = r


def judge(p):
    """-> (kind, text): kind in ok | violation | positive-broken | disagree | odd"""
    r = p['rustc']; acc = r['accepted']
    verdict = 'accept' if acc else 'reject'
    if not acc and (r['other_error'] or not r['codes']):
        return 'odd', 'rustc failed without an error code: ' + r['output'][-300:]
    if not acc and p.get('codes') and not any(c in p['codes'] for c in r['codes']):
        # rejected, but for a reason the probe does not expect (e.g. a signature changed): not evidence for the property
        return 'odd', 'rejected with %s, expected one of %s' % (','.join(r['codes']), ','.join(p['codes']))
    if p['demand'] == 'reject' and acc:
        return 'violation', 'rustc ACCEPTS a program the property forbids (%s)' % p['why']
    if p['demand'] == 'accept' and not acc:
        return 'positive-broken', 'rustc REJECTS (%s) a program the property requires to be accepted (%s)' % (','.join(r['codes']), p['why'])
    if p.get('predicted') and p['predicted'] != verdict:
        return 'disagree', 'the generated table predicts %s, rustc says %s (%s)' % (p['predicted'], verdict, p['why'])
    return 'ok', ''


def diagnose(T, pred):
    """what the regenerated tables say where they depart from the property (Coq's own evaluation, Gen/Predict.v)"""
    out = []
    rows = T.get('sigs', [])
    fns = dict((f['qname'], f) for f in T.get('fns', []))
    tied = pred.get('tied')
    if tied is not None and len(tied) == len(rows):
        for r, t in zip(rows, tied):
            if not t:
                f = fns[r['fn']]
                out.append('tied_to_self fails for %s (%s:%d): returns %s, carriers %s%s' % (f['qname'], f['file'], f['line'], f['ret'],
                           ', '.join('%s %s: %s' % (c['what'], c['lt'], c['origin']) for c in f['carriers']), ' [irregular signature]' if f['irregular'] else ''))
    for tr in ('Send', 'Sync'):
        cube = pred.get(tr.lower() + '_cube')
        if cube is None or len(cube) != 64: continue
        i = 0; wrong = []
        for k in VALS4:
            for v in VALS4:
                for s_ in VALS4:
                    want = all((x[0] if tr == 'Send' else x[1]) for x in (k, v, s_))
                    if cube[i] != want: wrong.append((k, v, s_, cube[i]))
                    i += 1
        if wrong:
            k, v, s_, got = min(wrong, key=lambda w: sum(2 - int(a) - int(b) for a, b in w[:3]))
            out.append('the impls written in the source make LruCache<K,V,S> %s%s when (Send,Sync) of K,V,S = %s,%s,%s (%d of 64 instantiations differ from the property); impls: %s' %
                       ('' if got else 'NOT ', tr, k, v, s_, len(wrong), ' | '.join(m['text'] for m in T.get('marker_impls', []) if m['trait'] == tr) or 'none'))
    bl = pred.get('blocked')
    if bl is not None and len(bl) == len(T.get('structs', [])):
        for st, b in zip(T['structs'], bl):
            if st['name'] == 'LruCache' and not b: out.append('no raw pointer is found in LruCache any more: the auto impls of Send/Sync would apply')
    for w in T.get('warnings', []): out.append('translator warning: ' + w)
    return out


def replay_text(p, kind, text, repo, extra=()):
    r = p.get('rustc', {})
    head = ['// property=C18  probe=%s' % p['name'],
            '// %s' % text,
            '// demand: %s   table-predicts: %s   rustc: %s %s' % (p.get('demand'), p.get('predicted'), 'accept' if r.get('accepted') else 'reject', ','.join(r.get('codes', []))),
            '// replay: python3 tools/sig_check.py C18 --replay <this file>   (compiles it against the crate built from %s)' % repo]
    if p.get('row'): head.append('// signature row: %s  %s  -> %s   carriers=%s' % (p['row']['row'], p['row']['recv'], p['row']['ret'], json.dumps(p['row']['carriers'])))
    head += ['// ' + e for e in extra]
    return '\n'.join(head) + '\n' + p['src']


def write_replay(name_hint, content, ext='.rs'):
    os.makedirs(os.path.join(ROOT, 'replays'), exist_ok=True)
    h = hashlib.sha256(content.encode()).hexdigest()[:10]
    path = os.path.join(ROOT, 'replays', 'C18-%s-%s%s' % (re.sub(r'\W+', '_', name_hint)[:40], h, ext))
    open(path, 'w').write(content)
    return path


# ------------------------------------------------------------------------------------------------
# C19 static half
# ------------------------------------------------------------------------------------------------
def write_paths(tables, roots):
    """for diagnostics: shortest call path from each root to a function with a write primitive (python mirror of the Coq check)"""
    G = dict((f['qname'], dict(callees=f['callees'], writes=f['writes'])) for f in tables['fns'])
    cl = tables['clone']
    # implicit drops: the glue nodes, and the drops-only twin "<f>@drops" of every function (GenDefs.v: with_drops_view)
    for g in tables.get('glue', []):
        G[g['node']] = dict(callees=g['callees'], writes=[])
    G[cl['node']] = dict(callees=cl['src_callees'], writes=cl['src_writes'])
    suf = tables.get('drops_suffix', '@drops')
    def dname(c): return c if c.startswith('drop_glue(') or c.endswith(suf) else c + suf
    for n in [n for n in G if not n.startswith('drop_glue(') and not n.endswith(suf)]:
        G[n + suf] = dict(callees=[dname(c) for c in G[n]['callees']], writes=[])
    def red(c): return cl['node'] if c == 'LruCache::clone' else c
    out = {}
    for r in roots:
        if r not in G: out[r] = dict(missing=True); continue
        prev = {r: None}; q = [r]; hit = None
        while q and hit is None:
            n = q.pop(0)
            if G[n]['writes']: hit = n; break
            for c in map(red, G[n]['callees']):
                if c in G and c not in prev: prev[c] = n; q.append(c)
        if hit:
            path = []; n = hit
            while n is not None: path.append(n); n = prev[n]
            path = list(reversed(path))
            out[r] = dict(path=path, writes=G[hit]['writes'][:4])
            # where the path goes through an implicit drop: the sites that put the edge to the glue node there
            sites = {}
            fn = dict((f['qname'], f) for f in tables['fns'])
            for a, b in zip(path, path[1:]):
                if b.startswith('drop_glue(') and not a.startswith('drop_glue('):
                    base = a[:-len(suf)] if a.endswith(suf) else a
                    ty = b[len('drop_glue('):-1]
                    src = fn[base]['drop_sites'] if base in fn else (cl.get('src_drop_sites', []) if base == cl['node'] else [])
                    sites['%s -> %s' % (a, b)] = [d for d in src if (' %s - ' % ty) in d or d.startswith(b)][:4]
            if sites: out[r]['implicit_drop_sites'] = sites
    return out


def c19_static():
    """-> (ok, details).  ok = Gen/C19Static.v (theorem C19_static and companions) compiles against tables regenerated
    from the current source, with closed assumptions.  details['witness'] gives, for every root that fails, a call
    path to a function containing a write primitive (use it to direct the dynamic search)."""
    t0 = time.time()
    repo = repo_path()
    with Lock('g'):
        gen = regenerate(repo)
        if not gen['ok']:
            return False, dict(problems=[gen['log']], wall_s=round(time.time() - t0, 2), theorem='C19_static', stage='translator')
        coq = coq_check(gen['sigs_v'], gen['tables'])
    ok, problems, names = cone_status(coq, C19_CONE)
    T = gen['tables']
    named = ['LruCache::peek', 'LruCache::peek_entry', 'LruCache::peek_lru', 'LruCache::peek_mru', 'LruCache::contains', 'LruCache::len',
             'LruCache::is_empty', 'LruCache::current_size', 'LruCache::max_size', 'LruCache::capacity', 'LruCache::hasher', 'LruCache::iter',
             'LruCache::keys', 'LruCache::values', 'LruCache::fmt', T['clone']['node'], 'Iter::new', 'Keys::new', 'Values::new', 'Iter::next',
             'Iter::next_back', 'Keys::next', 'Keys::next_back', 'Values::next', 'Values::next_back']
    roots = named + [r for r in T['shared_fns'] if r not in named]
    witness = write_paths(T, roots)
    nowrite = coq['predictions'].get('nowrite')
    names_c19 = [f['qname'] for f in T['fns']] + [g['node'] for g in T.get('glue', [])] + [T['clone']['node']]
    coq_says = dict(zip(names_c19, nowrite)) if nowrite and len(nowrite) == len(names_c19) else {}
    details = dict(
        ok=ok, problems=problems, broken=names, theorem='C19_static',
        theorems=coq['files'].get('Gen/C19Static.v', {}).get('theorems', []),
        print_assumptions=coq['files'].get('Gen/C19Static.v', {}).get('print_assumptions'),
        roots=roots, failing_roots=sorted(r for r in roots if r in witness),
        witness=witness, coq_no_write_reachable=dict((r, coq_says.get(r)) for r in roots),
        clone=dict(fresh_locals=T['clone']['fresh_locals'], fresh_sites=T['clone']['fresh_sites'], residual_not_covered=T['clone']['residual'],
                   source_writes=T['clone']['src_writes'], residual_callees_drops_covered=T['clone'].get('residual_callees', []),
                   source_drop_sites=T['clone'].get('src_drop_sites', []), returns_fresh=T['clone'].get('returns_fresh'), return_sites=T['clone'].get('return_sites', [])),
        functions=len(T['fns']), functions_with_write_primitive=sum(1 for f in T['fns'] if f['writes']),
        call_edges=sum(1 for f in T['fns'] for c in f['callees'] if not c.startswith('drop_glue(')),
        implicit_drop_edges=sum(1 for f in T['fns'] for c in f['callees'] if c.startswith('drop_glue(')),
        drop_glue=dict((g['node'], g['callees']) for g in T.get('glue', [])),
        fresh_drops=dict((f['qname'], f['fresh_drops']) for f in T['fns'] if f.get('fresh_drops')),
        translator_warnings=T['warnings'], obligations=dict((f, coq['obligations'].get(f)) for f in C19_CONE),
        checker_cmd='sigdump (regenerate Gen/Sigs.v from %s/src) ; coqc -Q . LruV Gen/GenDefs.v Gen/Sigs.v Gen/C19Static.v' % repo,
        covered='for every &self operation of LruCache (named in C19 and every other one found in the source), the Iterator/DoubleEndedIterator methods and constructors of Iter/Keys/Values, Debug::fmt, and the source half of Clone::clone: no function reachable in the generated call graph contains a write primitive; the graph has an edge to drop_glue(T) wherever a value of a scanned type T with drop code may be dropped implicitly (scope end, overwriting, early return, unwinding), and the source half of clone has the implicit drops of the callees of its residual sites',
        not_covered='clone: the explicit code of sites of the fresh cache that receive source-derived values (clone.residual_not_covered; their implicit drops are covered); the drop of the half-built / nested clone is taken as a write into fresh memory (clone.fresh_sites); drops inside foreign containers of scanned types whose type is written nowhere in the function; writes hidden behind a method name that is defined in the scanned files but dispatches elsewhere; interior mutability inside user types K, V, S',
        build_dir=coq['dir'], cached=coq.get('cached', False), wall_s=round(time.time() - t0, 2))
    return ok, details


# ------------------------------------------------------------------------------------------------
# C18
# ------------------------------------------------------------------------------------------------
def do_replay(path, repo):
    src = open(path).read()
    rlib, deps, log, _ = build_crate(repo)
    if not rlib:
        print('crate does not build: ' + log); return None
    m = re.search(r'^// demand: (\w+)', src, re.M)
    demand = m.group(1) if m else 'reject'
    tmp = os.path.join(GDIR, 'replay-%d' % os.getpid()); os.makedirs(tmp, exist_ok=True)
    p = os.path.join(tmp, 'replay.rs'); open(p, 'w').write(src)
    r = rustc_probe((p, rlib, deps)); shutil.rmtree(tmp, ignore_errors=True)
    print('rustc %s the program%s; the property demands: %s' % ('ACCEPTS' if r['accepted'] else 'rejects', '' if r['accepted'] else ' (%s)' % ','.join(r['codes']), demand))
    if not r['accepted']: print(r['output'])
    return (demand == 'reject' and r['accepted']) or (demand == 'accept' and not r['accepted'])


def main(pid='C18', tier='quick', seed=1, replay=None):
    if pid != 'C18':
        print('sig_check: unknown property ' + pid); return 2
    t0 = time.time()
    repo = repo_path()
    os.makedirs(GDIR, exist_ok=True)
    if replay and not replay.endswith('.rs'):
        # a replay file that names a broken theorem / correspondence: the replay is the check itself
        print(open(replay).read())
        print('--- re-running the check against %s' % repo)
        return main(pid, tier, seed, None)
    if replay:
        with Lock('g'):
            bad = do_replay(replay, repo)
        if bad: print('VIOLATION property=C18 replay=%s' % replay)
        return 1 if bad or bad is None else 0

    violations = []      # (path, text, no_input_found)
    problems = []
    with Lock('g'):
        gen = regenerate(repo)
        coq = None; probes = []; notes = []; pred = {}; generated = []
        if not gen['ok']:
            problems.append(('translator', gen['log']))
        else:
            T = gen['tables']
            coq = coq_check(gen['sigs_v'], T)
            pred = coq['predictions']
            generated = marker_probes(T, pred)
            sp, notes = sig_probes(T, pred, tier)
            generated += sp
            rlib, deps, log, tdir = build_crate(repo)
            if not rlib:
                problems.append(('crate-build', 'the crate does not build from %s: %s' % (repo, log)))
            else:
                probes = generated
                run_probes(probes, rlib, deps, os.path.join(GDIR, 'probes-%s' % sha(repo)[:10]))

    diag = diagnose(gen['tables'], pred) if gen.get('ok') else []
    # ---- judge the probes
    counts = dict(ok=0, violation=0, odd=0, disagree=0)
    counts['positive-broken'] = 0
    bad = []
    for p in probes:
        k, text = judge(p); p['judgement'] = k; p['text'] = text
        counts[k] += 1
        if k != 'ok': bad.append(p)
    # a real failing program: rustc accepts what the property forbids / rejects what it requires
    real = [p for p in bad if p['judgement'] in ('violation', 'positive-broken')]
    # report one program per distinct cause: markers -> the minimal counter-model per trait; signatures -> one per row
    reported = set()
    def cause(p):
        if p['group'].startswith('marker'): return ('marker', p['trait'], p['judgement'])
        return ('sig', p['row']['row'], p['judgement'])
    for p in sorted(real, key=lambda p: (p.get('nbad', 0), p.get('other_bad', 0), p['name'])):
        c = cause(p)
        if c in reported: continue
        reported.add(c)
        same = [q['name'] for q in real if cause(q) == c]
        path = write_replay(p['name'], replay_text(p, p['judgement'], p['text'], repo,
                                                   extra=['%d probe programs fail for the same cause: %s' % (len(same), ' '.join(same[:12]))] + diag[:6]))
        violations.append((path, p['text'], False))

    # ---- proof side
    proof_ok = False; proof_problems = []; broken = []
    if coq is not None:
        proof_ok, proof_problems, broken = cone_status(coq, C18_CONE)
        if not coq['predictions'] and coq['files'].get('Gen/Predict.v', {}).get('ok') is False:
            proof_problems.append('Gen/Predict.v (predictions) does not compile: ' + coq['files']['Gen/Predict.v'].get('error', ''))
    chk = None
    if tier == 'thorough' and coq is not None and proof_ok:
        with Lock('g'):
            chk = coqchk(coq, ['LruV.Properties.C18'])
        if not chk['ok'] or chk['axioms'] != '<none>':
            proof_ok = False; proof_problems.append('coqchk: ok=%s axioms=%s %s' % (chk['ok'], chk['axioms'], chk['tail'][-200:]))
    broken_corr = [p for p in bad if p['judgement'] in ('disagree', 'odd')]
    unprobed_borrow = [n for n in notes if not n['probed'] and n['has_borrow'] and not n.get('covered_by') and 'constructor' not in n['why']]
    if not violations:
        items = []
        if problems: items += ['%s: %s' % kv for kv in problems]
        if coq is not None and not proof_ok: items += ['proof obligation no longer checks: ' + x for x in proof_problems]
        for p in broken_corr[:20]:
            items.append('correspondence: probe %s: %s' % (p['name'], p['text']))
        for n in unprobed_borrow:
            items.append('correspondence: signature row %s returns a borrow but no probe could be generated (%s)' % (n['row'], n['why']))
        if items:
            body = ['property=C18', 'no probe program was found on which rustc contradicts the property, but the following no longer checks:'] + items
            if diag: body += ['', 'what the regenerated tables say:'] + diag
            body += ['', 'theorems / obligations named: ' + (', '.join(broken) if broken else '-'),
                     'repository: ' + repo, 'checker: sigdump ; coqc -Q . LruV Gen/GenDefs.v Gen/Sigs.v Gen/GenProps.v Properties/C18.v ; rustc probes']
            path = write_replay('broken', '\n'.join(body) + '\n', ext='.txt')
            violations.append((path, items[0][:300], True))
    elif coq is not None and not proof_ok:
        print('NOTE: proof side also broken: ' + '; '.join(proof_problems)[:600])

    # ---- evidence
    samples = []
    for g in ('marker-generic', 'marker-cube', 'sig-misuse', 'sig-legit', 'marker-struct'):
        for p in probes:
            if p['group'] == g and (g != 'marker-cube' or p.get('nbad') == 1):
                samples.append(dict(name=p['name'], group=g, program=p['src'], demand=p['demand'], table_predicts=p.get('predicted'),
                                    rustc='accept' if p['rustc']['accepted'] else 'reject ' + ','.join(p['rustc']['codes']), judgement=p['judgement']))
                break
    for p in bad[:3]:
        samples.append(dict(name=p['name'], group=p['group'], program=p['src'], demand=p['demand'], table_predicts=p.get('predicted'),
                            rustc='accept' if p['rustc']['accepted'] else 'reject ' + ','.join(p['rustc']['codes']), judgement=p['judgement'], text=p['text']))
    if not samples:
        samples = [dict(name=p['name'], group=p['group'], program=p['src'], demand=p['demand'], table_predicts=p.get('predicted'), rustc='not run') for p in generated[:3]]
    if not samples: samples.append(dict(note='no probe program could be generated', problems=[k for k, _ in problems]))
    obl = sum(v[0] for f, v in (coq['obligations'].items() if coq else []) if f in C18_CONE)
    dis = sum(v[1] for f, v in (coq['obligations'].items() if coq else []) if f in C18_CONE)
    groups = {}
    for p in probes: groups[p['group']] = groups.get(p['group'], 0) + 1
    T = gen.get('tables', {}) if gen.get('ok') else {}
    ev = dict(
        property_id='C18', tier=tier, seed=int(seed), level='translation_validation',
        coverage=dict(
            programs=len(probes) if probes else len(generated), programs_compiled=len(probes),
            disagreements_checked=len(probes),
            disagreements_found=len(bad),
            judgements=counts, programs_by_group=groups,
            samples=samples,
            obligations=max(obl, 1), discharged=dis if proof_ok else min(dis, max(obl - 1, 0)),
            checker_cmd='sigdump (regenerates Gen/Sigs.v from %s/src) ; timeout 600 coqc -Q . LruV {Gen/GenDefs.v,Gen/Sigs.v,Gen/GenProps.v,Gen/Predict.v,Properties/C18.v} ; audit: no Admitted/admit/Axiom/Parameter/Conjecture/guard-off, Print Assumptions closed ; rustc --edition 2021 --emit=metadata --extern lru_mem=<rlib built from the working tree> on every probe program' % repo,
            trusted_base=TRUSTED_BASE,
            theorems=(coq['files'].get('Properties/C18.v', {}).get('theorems', []) if coq else []),
            print_assumptions=(coq['files'].get('Properties/C18.v', {}).get('print_assumptions') if coq else None),
            proof_ok=proof_ok, proof_problems=proof_problems, coqchk=chk,
            tables=dict(structs=len(T.get('structs', [])), marker_impls=[m['text'] for m in T.get('marker_impls', [])], signature_rows=len(T.get('sigs', [])),
                        rows_returning_a_borrow=sum(1 for r in T.get('sigs', []) if any(f['qname'] == r['fn'] and f['carriers'] for f in T.get('fns', []))),
                        functions=len(T.get('fns', [])), translator_warnings=T.get('warnings', [])),
            rows_without_own_probe=notes,
            exhaustive=True,
            explanation='The Coq theorems are propositional facts about tables regenerated from the source by a syn translator (bounds on the manual Send/Sync impls, raw-pointer fields, lifetimes of every return type). rustc is the oracle: for each marker the full 4x4x4 cube of (Send,Sync) witnesses per parameter (it contains the 2x7 negative obligations and the positive one) plus the generic positive obligation; for every signature row a misuse program (keep the result, mutate or drop the cache, use the result) and a legitimate one; for the iterator structs the auto-impl prediction. Each program has three verdicts that must agree: what the property demands, what the Coq tables predict (Eval vm_compute in Gen/Predict.v), what rustc does. exhaustive=true refers to the marker cube and to the rows of the generated signature table, not to all Rust programs.'),
        assumptions=['witness types have exactly the marker traits stated (Cell<u8>: Send, !Sync; MutexGuard<\'static,u8>: !Send, Sync; Rc<u8>: neither)',
                     'a probe instantiates K = V = u64, S = RandomState; the borrow checker\'s verdict does not depend on the instantiation',
                     'the crate is compiled with its default features'],
        wall_s=round(time.time() - t0, 2), violations=len(violations))
    if ev['coverage']['programs'] == 0:
        # nothing could be generated or compiled (the source does not parse / the translator does not build):
        # say so instead of claiming a validation that did not happen
        ev['level'] = 'other'
        ev['coverage']['explanation'] = 'THE CHECK COULD NOT RUN: ' + '; '.join('%s: %s' % (k, ' '.join(v.split())[:300]) for k, v in problems) + ' | ' + ev['coverage']['explanation']
    os.makedirs(os.path.join(ROOT, 'evidence'), exist_ok=True)
    json.dump(ev, open(os.path.join(ROOT, 'evidence', 'C18.json'), 'w'), indent=1)

    for path, what, nofound in violations:
        print('VIOLATION property=C18 replay=%s%s' % (path, ' no-failing-input-found' if nofound else ''))
        print('  ' + what)
    if not violations:
        print('OK C18: %d obligations checked against tables regenerated from %s/src; %d probe programs (%s): rustc, the property and the Coq tables agree on all (%.1fs)' %
              (dis, repo, len(probes), ', '.join('%s %d' % kv for kv in sorted(groups.items())), time.time() - t0))
    return 1 if violations else 0


if __name__ == '__main__':
    a = sys.argv[1:]
    if not a: print(__doc__); sys.exit(2)
    if a[0] == '--regen':
        with Lock('g'):
            g = regenerate(repo_path())
        print(g.get('log', '').strip()); sys.exit(0 if g['ok'] else 1)
    if a[0] == 'C19S':
        ok, d = c19_static()
        print(json.dumps(d, indent=1)); print('C19 static: ' + ('ok' if ok else 'BROKEN')); sys.exit(0 if ok else 1)
    tier = os.environ.get('VERIF_TIER', 'quick'); rp = None; i = 1
    while i < len(a):
        if a[i] == '--tier': tier = a[i + 1]; i += 2
        elif a[i] == '--replay': rp = a[i + 1]; i += 2
        else: i += 1
    sys.exit(main(a[0], tier, int(os.environ.get('VERIF_SEED', '1')), rp))
