#!/bin/sh
# Builds the whole framework from files on disk, offline: the Coq development (full .vo build),
# the extracted model + OCaml driver, and the Rust harness against /repo (debug and release).
set -e
cd "$(dirname "$0")/.."
export CARGO_NET_OFFLINE=true CARGO_TARGET_DIR="$PWD/.cache/target"
mkdir -p .cache bin evidence replays
python3 tools/sig_check.py --regen
( cd coq && coq_makefile -f _CoqProject -o Makefile >/dev/null && timeout 3000 make -j16 )
( cd ocaml && ocamlfind ocamlopt -O2 -w -a -package zarith -linkpkg model.mli model.ml driver.ml -o ../bin/modelrun )
# debug and release side by side, each in its own target directory (the ones tools/check.py and tools/memsize_check.py use)
( cd harness && ( CARGO_TARGET_DIR="$PWD/../.cache/target" timeout 1500 cargo build --offline & CARGO_TARGET_DIR="$PWD/../.cache/target-rel" timeout 1500 cargo build --offline --release & wait ) )
[ -x .cache/target/debug/cache_trace ] && [ -x .cache/target-rel/release/cache_trace ]
# warm the caches of the two translator ties (their verdicts are computed again by the checks)
python3 tools/body_check.py > /dev/null 2>&1 || true
python3 tools/op_check.py > /dev/null 2>&1 || true
echo setup-ok
