#!/usr/bin/env python3
"""memsize_check.py -- the check for properties C08 and C09 (Layer M: /repo/src/mem_size.rs).

    main(pid, tier, seed, replay) -> int          (engine entry point used by tools/check.py)
    python3 tools/memsize_check.py C08|C09 [--tier quick|thorough] [--seed N] [--replay FILE]

One run =
 (a) proofs: coq/Base.v, coq/M/MemModel.v, coq/M/MemProps.v and coq/Properties/<pid>.v are compiled from
     scratch with coqc in a private build directory; audit: no Admitted/admit/Axiom/Parameter/Conjecture/...,
     every `Print Assumptions` answers "Closed under the global context", the required theorems are present.
 (b) correspondence: harness/src/bin/memsize_probe.rs is (re)built by cargo against the CURRENT working tree
     of the crate (debug and release) and run: ~300 concrete nested types x random values with spare
     capacity x iterator shapes under a counting allocator, plus large-count cases on a 256 KiB stack.  The
     Coq model is evaluated on the very same (type, value) terms with the measured size_of table
     (`Eval vm_compute`, coqc) and compared: heap_size / mem_size / value_size / four bulk helpers (model vs
     real), alloc_bytes vs bytes held from the allocator, real heap_size vs bytes held.  Monitors that need
     no model (mem = value + heap; bulk = sum of the real per-element results; heap_size = live bytes on
     the exact class, <= on hash tables; references 0) are evaluated directly on the implementation.
     The text of SizedArrayFlatIterator::next is compared with the model's `flat_impl`.
 (c) verdict: VIOLATION property=<pid> replay=<file> (exit 1) with the concrete type / value / iterator
     shape, expected vs observed; `... no-failing-input-found` when only the proof side is broken.
 (d) evidence/<pid>.json is always written.

Environment: VERIF_REPO (default: the path the harness manifest depends on, i.e. /repo), VERIF_HARNESS
(default /verif/harness).  Nothing derived from the crate is cached: cargo decides what to rebuild, and the
probe is re-run and the model re-evaluated on every invocation.
"""
import sys, os, re, json, time, hashlib, subprocess, shutil, concurrent.futures

ROOT = os.path.dirname(os.path.dirname(os.path.abspath(__file__)))
CACHE = os.path.join(ROOT, '.cache', 'memsize')
COQ = os.environ.get('VERIF_COQ', os.path.join(ROOT, 'coq'))     # VERIF_COQ: only for testing the check itself

REQUIRED = {
    'C08': ['C08_bulk', 'C08_mem', 'C08_container', 'C08_wrapper', 'C08_depth', 'C08_depth_empty_sections', 'C08_flat_iterator'],
    'C09': ['C09_exact', 'C09_upper', 'C09_map', 'C09_set', 'C09_ref'],
}
# which comparison kinds carry which property
KINDS = {
    'C08': {'hs_model', 'ms_model', 'vs_model', 'wt_model', 'ms_split', 'bulk_model', 'bulk_direct', 'big', 'flat_impl', 'probe'},
    'C09': {'hs_model', 'wt_model', 'alloc_model', 'hs_live', 'map_lower', 'ref_zero', 'probe'},
}
FORBIDDEN = re.compile(r'\b(Admitted|admit|Axiom|Axioms|Parameter|Parameters|Conjecture|Conjectures|Unset\s+Guard|bypass_check|'
                       r'Admit\s+Obligations|type-in-type|impredicative-set|Unset\s+Positivity|Unset\s+Universe)\b')
TRUSTED_BASE = [
    'Coq 8.16.1 kernel (coqc); vm_compute only to evaluate the executable model on probed values and for the closed examples; no native_compute',
    'axioms: none (every Print Assumptions of Properties/C08.v and C09.v reports "Closed under the global context")',
    'sizeof (rustc layout) and gw (hashbrown Group::WIDTH) are parameters of every theorem; each run instantiates them with the numbers the probe measures',
    'alloc_bytes is a hand-written model of what std / hashbrown keep allocated; it is validated on every run against a counting global allocator, not verified',
    'an iterator is modelled by the list of items it yields (make_iter is Fn and is assumed to yield the same items on every call; ExactSizeIterator::len is assumed truthful for the caller\'s iterator)',
    'Gallina totality says nothing about Rust\'s stack: the stack clause rests on flat_next_depth (a frame count for next() as written, no tail-call elimination assumed), the textual check that next() still is that loop, and the large-count runs on a 256 KiB stack in debug and release',
    'poisoned Mutex / RwLock are outside the property (DESIGN.md 9.4): wt requires poisoned = false',
    'correspondence machinery (differential testing, not proof): harness/src/bin/memsize_probe.rs (Reflect impls, value generator, counting allocator harness::failalloc), this script, coqc evaluating the model on the generated terms',
    'modelled by hand, not verified: /repo/src/mem_size.rs; std::collections::HashMap bucket counts are recovered from capacity() (tables never hold 16 entries when an entry is erased, so no tombstones)',
]

def sh(cmd, cwd=None, env=None, timeout=3000):
    p = subprocess.run(cmd, cwd=cwd, env=env, stdout=subprocess.PIPE, stderr=subprocess.STDOUT, timeout=timeout,
                       shell=isinstance(cmd, str), text=True, errors='replace')
    return p.returncode, p.stdout

def strip_comments(src):
    out = []; depth = 0; i = 0
    while i < len(src):
        if src.startswith('(*', i): depth += 1; i += 2
        elif src.startswith('*)', i) and depth > 0: depth -= 1; i += 2
        else:
            if depth == 0: out.append(src[i])
            i += 1
    return ''.join(out)

# ------------------------------------------------------------------------------------------------
# configuration: which crate, which harness
# ------------------------------------------------------------------------------------------------
def manifest_repo(harness):
    m = re.search(r'lru-mem\s*=\s*\{[^}]*path\s*=\s*"([^"]+)"', open(os.path.join(harness, 'Cargo.toml')).read())
    return m.group(1) if m else '/repo'

def config():
    harness = os.path.abspath(os.environ.get('VERIF_HARNESS', os.path.join(ROOT, 'harness')))
    repo = os.path.abspath(os.environ.get('VERIF_REPO', manifest_repo(harness)))
    target = os.environ.get('VERIF_TARGET')
    if os.path.abspath(manifest_repo(harness)) != repo:
        # a scratch copy of the harness whose manifest points at the requested crate (never edits the original)
        alt = os.path.join(CACHE, 'harness-' + hashlib.sha256((harness + '|' + repo).encode()).hexdigest()[:10])
        os.makedirs(os.path.join(alt, 'src', 'bin'), exist_ok=True)
        man = open(os.path.join(harness, 'Cargo.toml')).read()
        man = re.sub(r'(lru-mem\s*=\s*\{[^}]*path\s*=\s*")[^"]+(")', lambda m: m.group(1) + repo + m.group(2), man)
        def put(rel, text=None):
            dst = os.path.join(alt, rel)
            text = open(os.path.join(harness, rel)).read() if text is None else text
            if not os.path.exists(dst) or open(dst).read() != text: open(dst, 'w').write(text)
        put('Cargo.toml', man); put('src/bin/memsize_probe.rs')
        for f in sorted(os.listdir(os.path.join(harness, 'src'))):
            if f.endswith('.rs'): put('src/' + f)
        if os.path.exists(os.path.join(harness, 'Cargo.lock')): put('Cargo.lock')
        harness = alt
        target = target or os.path.join(alt, 'target')
    if not target:
        # the same target directories as tools/check.py (debug: .cache/target, release: .cache/target-rel): the crate and the harness library are compiled once
        target = os.path.join(ROOT, '.cache', 'target') if harness == os.path.join(ROOT, 'harness') else os.path.join(harness, 'target-m')
    return dict(harness=harness, repo=repo, target=target)

# ------------------------------------------------------------------------------------------------
# (a) proof side
# ------------------------------------------------------------------------------------------------
def proof_side(pid, bdir):
    """compile Base, M/MemModel, M/MemProps, Properties/<pid> from scratch in bdir; audit"""
    res = dict(ok=True, model_ok=False, problems=[], theorems=[], obligations=0, discharged=0, closed=0, print_assumptions=0, files=[])
    files = ['Base.v', 'M/MemModel.v', 'M/MemProps.v', 'Properties/%s.v' % pid]
    res['files'] = files
    shutil.rmtree(bdir, ignore_errors=True)
    os.makedirs(os.path.join(bdir, 'M')); os.makedirs(os.path.join(bdir, 'Properties'))
    per_file = {}
    for f in files:
        src = os.path.join(COQ, f)
        if not os.path.exists(src):
            res['ok'] = False; res['problems'].append('missing coq/' + f); return res
        shutil.copy(src, os.path.join(bdir, f))
        text = strip_comments(open(src).read())
        m = FORBIDDEN.search(text)
        if m: res['ok'] = False; res['problems'].append('forbidden vernacular %r in coq/%s' % (m.group(0), f))
        per_file[f] = len(re.findall(r'^\s*(?:Local\s+|Global\s+)?(?:Theorem|Lemma|Corollary|Example|Fact|Proposition|Remark)\s', text, re.M))
    res['obligations'] = sum(per_file.values())
    out_last = ''
    for f in files:
        rc, out = sh('timeout 600 coqc -Q . LruV %s' % f, cwd=bdir, timeout=700)
        if rc != 0:
            res['ok'] = False
            err = re.search(r'File "[^"]+", line (\d+)[^\n]*\n(Error[^\n]*(?:\n[^\n]+){0,5})', out)
            res['problems'].append('proof obligation no longer checks: coqc %s failed%s' % (f, (' at line %s: %s' % (err.group(1), err.group(2).replace('\n', ' ')[:300])) if err else ': ' + out[-300:]))
            break
        res['discharged'] += per_file[f]
        if f == 'M/MemModel.v': res['model_ok'] = True
        out_last = out
    else:
        src = strip_comments(open(os.path.join(COQ, files[-1])).read())
        res['theorems'] = re.findall(r'^\s*(?:Theorem|Corollary)\s+(\w+)', src, re.M)
        res['print_assumptions'] = len(re.findall(r'Print Assumptions', src))
        res['closed'] = out_last.count('Closed under the global context')
        if 'Axioms:' in out_last or res['closed'] != res['print_assumptions'] or res['closed'] == 0:
            res['ok'] = False; res['problems'].append('Print Assumptions: %d commands, %d closed under the global context%s' % (
                res['print_assumptions'], res['closed'], '; axioms reported' if 'Axioms:' in out_last else ''))
        missing = [t for t in REQUIRED[pid] if t not in res['theorems']]
        if missing: res['ok'] = False; res['problems'].append('property theorem(s) missing from Properties/%s.v: %s' % (pid, ', '.join(missing)))
        pa = re.findall(r'Print Assumptions\s+(\w+)', src)
        unprinted = [t for t in REQUIRED[pid] if t not in pa]
        if unprinted: res['ok'] = False; res['problems'].append('no Print Assumptions for: ' + ', '.join(unprinted))
        unpinned = [t for t in REQUIRED[pid] if not re.search(r'Check\s+\(?[^:.]*\b%s\b[^:]*:' % t, src)]
        res['unpinned'] = unpinned
    return res

# ------------------------------------------------------------------------------------------------
# (b) the probe
# ------------------------------------------------------------------------------------------------
def build_probe(cfg):
    problems = []
    def one(prof):
        env = dict(os.environ, CARGO_NET_OFFLINE='true', CARGO_TARGET_DIR=tdir(cfg, 'release' if prof else 'debug'))
        rc, out = sh('timeout 1500 cargo build --offline %s --bin memsize_probe 2>&1' % prof, cwd=cfg['harness'], env=env, timeout=1600)
        if rc != 0:
            errs = re.findall(r'^error[^\n]*(?:\n[^\n]+){0,6}', out, re.M)
            return 'memsize_probe does not build against %s (%s): %s' % (cfg['repo'], prof or 'debug', (errs[0] if errs else out[-600:])[:900])
    with concurrent.futures.ThreadPoolExecutor(max_workers=2) as ex:
        for p in ex.map(one, ['', '--release']):
            if p: problems.append(p)
    return problems

def tdir(cfg, prof): return cfg['target'] if prof == 'debug' else cfg['target'] + '-rel'
def exe(cfg, prof): return os.path.join(tdir(cfg, prof), prof, 'memsize_probe')

def run_gen(cfg, prof, seed, reps, only=None):
    cmd = [exe(cfg, prof), 'gen', str(seed), str(reps)] + ([only] if only else [])
    p = subprocess.run(cmd, stdout=subprocess.PIPE, stderr=subprocess.PIPE, timeout=1200)
    out = p.stdout.decode(errors='replace')
    rec = dict(profile=prof, seed=seed, reps=reps, gw=16, sizes=[], types={}, order=[], rc=p.returncode, stderr=p.stderr.decode(errors='replace')[-600:], complete=False)
    for line in out.split('\n'):
        f = line.split('\t')
        if f[0] == 'GW': rec['gw'] = int(f[1])
        elif f[0] == 'SIZEOF': rec['sizes'].append((f[1], int(f[2])))
        elif f[0] == 'TYPE':
            rec['types'][int(f[1])] = dict(tid=int(f[1]), name=f[2], ty=f[3], cases=[], bulk=[]); rec['order'].append(int(f[1]))
        elif f[0] == 'CASE':
            rec['types'][int(f[1])]['cases'].append(dict(i=int(f[2]), val=f[3], hs=int(f[4]), ms=int(f[5]), vs=int(f[6]), live=int(f[7]),
                                                          lower=(int(f[8]) if len(f) > 8 and f[8] != '-' else None)))
        elif f[0] == 'BULK':
            opt = lambda s: None if s == '-' else int(s)
            rec['types'][int(f[1])]['bulk'].append(dict(shape=f[2], idx=[int(x) for x in f[3].split(',') if x != ''],
                hs_sum=int(f[4]), hs_exact=opt(f[5]), vs_sum=int(f[6]), vs_exact=opt(f[7])))
        elif f[0] == 'END': rec['complete'] = True
    return rec

def run_big(cfg, prof, case, count):
    t0 = time.time()
    try:
        p = subprocess.run([exe(cfg, prof), 'big', case, str(count)], stdout=subprocess.PIPE, stderr=subprocess.PIPE, timeout=900)
        rc = p.returncode; out = p.stdout.decode(errors='replace'); err = p.stderr.decode(errors='replace')[-300:]
    except subprocess.TimeoutExpired:
        rc = 'timeout'; out = ''; err = 'timeout'
    r = dict(profile=prof, case=case, count=count, rc=rc, wall_s=round(time.time() - t0, 2), got=None, want=None, err=err.strip())
    m = re.search(r'^BIG\t\S+\t\d+\t(\d+)\t(\d+)', out, re.M)
    if m: r['got'] = int(m.group(1)); r['want'] = int(m.group(2))
    return r

def flat_next_source(repo):
    """the body of SizedArrayFlatIterator's `fn next` as written, and whether it calls itself / loops"""
    try: src = open(os.path.join(repo, 'src', 'mem_size.rs')).read()
    except OSError as e: return dict(found=False, why=str(e))
    m = re.search(r'impl<[^>]*>\s*Iterator\s+for\s+SizedArrayFlatIterator', src)
    if not m: return dict(found=False, why='impl Iterator for SizedArrayFlatIterator not found')
    n = re.compile(r'fn\s+next\s*\(').search(src, m.end())
    if not n: return dict(found=False, why='fn next not found')
    i = src.index('{', n.end()); depth = 0; j = i
    while j < len(src):
        if src[j] == '{': depth += 1
        elif src[j] == '}':
            depth -= 1
            if depth == 0: break
        j += 1
    body = re.sub(r'//[^\n]*', '', src[i:j + 1])
    rec = bool(re.search(r'\bself\s*\.\s*next\s*\(\s*\)|\bSelf::next\s*\(|Iterator::next\s*\(\s*self', body))
    return dict(found=True, recursive=rec, loops=bool(re.search(r'\b(loop|while|for)\b', body)), body=' '.join(body.split()))

# ------------------------------------------------------------------------------------------------
# model evaluation (coqc, Eval vm_compute)
# ------------------------------------------------------------------------------------------------
def nat_list(xs): return '[' + '; '.join('%d' % x for x in xs) + ']%nat'

def gen_cases_v(rec, tids):
    L = ['Require Import LruV.M.MemModel.', 'Local Open Scope N_scope.',
         'Definition tbl : list (ty * N) := [' + ';\n  '.join('(%s, %d)' % (t, n) for t, n in rec['sizes']) + '].',
         'Definition sz := table_sizeof tbl.', 'Definition gw : N := %d.' % rec['gw'],
         'Definition pick (pool : list value) (idx : list nat) := map (fun i => nth i pool VUnit) idx.']
    plan = []     # what each Eval answers, in order
    for tid in tids:
        T = rec['types'][tid]
        L.append('Definition t%d : ty := %s.' % (tid, T['ty']))
        for c in T['cases']:
            L.append('Definition v%d_%d : value := %s.' % (tid, c['i'], c['val']))
            L.append('Eval vm_compute in (let t := t%d in let v := v%d_%d in [hs sz t v; ms sz t v; vsz sz t v; alloc_bytes sz gw t v; b2n (wt t v); b2n (exact_class t); '
                     'match t, v with THashMap k x _, VMap _ cap _ ks vs => cap * sz (TTuple [k; x]) + sumN (map (hs sz k) ks) + sumN (map (hs sz x) vs) '
                     '| THashSet k _, VSet _ cap _ ks => cap * sz k + sumN (map (hs sz k) ks) | _, _ => 0 end]).' % (tid, tid, c['i']))
            plan.append(('case', tid, c['i']))
        L.append('Definition p%d : list value := [%s].' % (tid, '; '.join('v%d_%d' % (tid, c['i']) for c in T['cases'])))
        for bi, b in enumerate(T['bulk']):
            L.append('Eval vm_compute in (let t := t%d in let vs := pick p%d %s in [hs_sum_iter sz t vs; hs_sum_exact sz t (len vs) vs; vs_sum_iter sz t vs; '
                     'vs_sum_exact sz t (len vs) vs; sumN (map (hs sz t) vs); sumN (map (vsz sz t) vs); b2n (forallb (wt t) vs)]).' % (tid, tid, nat_list(b['idx'])))
            plan.append(('bulk', tid, bi))
    return '\n'.join(L) + '\n', plan

def eval_model(rec, bdir, tag, workers=14, chunk=24):
    """returns ({('case',tid,i): [...], ('bulk',tid,bi): [...]}, problems)"""
    tids = rec['order']
    chunks = [tids[i:i + chunk] for i in range(0, len(tids), chunk)]
    results = {}; problems = []
    def one(ci):
        name = 'Cases_%s_%d' % (tag, ci)
        text, plan = gen_cases_v(rec, chunks[ci])
        open(os.path.join(bdir, name + '.v'), 'w').write(text)
        rc, out = sh('timeout 900 coqc -Q . LruV %s.v' % name, cwd=bdir, timeout=1000)
        if rc != 0: return plan, None, out[-500:]
        vals = [[int(x) for x in re.findall(r'\d+', m)] for m in re.findall(r'=\s*\[([^\]]*)\]\s*:\s*list N', out)]
        return plan, vals, ''
    with concurrent.futures.ThreadPoolExecutor(max_workers=workers) as ex:
        for plan, vals, err in ex.map(one, range(len(chunks))):
            if vals is None: problems.append('model evaluation failed: ' + err); continue
            if len(vals) != len(plan): problems.append('model evaluation: %d answers for %d questions' % (len(vals), len(plan))); continue
            for k, v in zip(plan, vals): results[k] = v
    return results, problems

# ------------------------------------------------------------------------------------------------
# comparison
# ------------------------------------------------------------------------------------------------
def compare(rec, model):
    """list of failures: dict(kind, type, ty, value/shape, what, expected, observed)"""
    fails = []; n_eval = 0
    def fail(kind, T, what, expected, observed, **kw):
        fails.append(dict(kind=kind, profile=rec['profile'], seed=rec['seed'], reps=rec['reps'], type=T['name'], ty=T['ty'], what=what, expected=expected, observed=observed, **kw))
    for tid in rec['order']:
        T = rec['types'][tid]
        table = 'THashMap' in T['ty'] or 'THashSet' in T['ty']
        for c in T['cases']:
            n_eval += 1
            kw = dict(value=c['val'], case=c['i'])
            # monitors evaluated on the implementation alone
            if c['ms'] != c['vs'] + c['hs']:
                fail('ms_split', T, 'mem_size() = value_size() + heap_size()', c['vs'] + c['hs'], c['ms'], **kw)
            if not table and c['hs'] != c['live']:
                fail('hs_live', T, 'heap_size() = bytes the value holds from the allocator (counting allocator)', c['live'], c['hs'], **kw)
            if table and c['hs'] > c['live']:
                fail('hs_live', T, 'heap_size() <= bytes the value holds from the allocator (counting allocator)', '<= %d' % c['live'], c['hs'], **kw)
            if c['lower'] is not None and c['hs'] < c['lower']:
                fail('map_lower', T, 'heap_size() >= capacity() x entry size + heap_size() of every element (all measured on the implementation)', '>= %d' % c['lower'], c['hs'], **kw)
            if T['ty'].startswith('(TRef ') and c['hs'] != 0:
                fail('ref_zero', T, 'a reference contributes heap_size() = 0', 0, c['hs'], **kw)
            m = model.get(('case', tid, c['i']))
            if m is None: continue
            hs, ms, vs, ab, wt, ex, lower = m
            if wt != 1: fail('wt_model', T, 'the probed value is a well-typed model value (wt t v = true)', 1, wt, **kw)
            if hs != c['hs']: fail('hs_model', T, 'heap_size(): Coq model hs vs implementation', hs, c['hs'], **kw)
            if ms != c['ms']: fail('ms_model', T, 'mem_size(): Coq model ms vs implementation', ms, c['ms'], **kw)
            if vs != c['vs']: fail('vs_model', T, 'value_size(): Coq model vsz vs implementation', vs, c['vs'], **kw)
            if ab != c['live']: fail('alloc_model', T, 'alloc_bytes (model of what std keeps allocated) vs counting allocator', ab, c['live'], **kw)
            if (ex == 1) != (not table): fail('probe', T, 'exact_class agrees with the syntactic classification', int(not table), ex, **kw)
            # the model's own lower bound (`lower`) needs no comparison: it follows from hs_model and theorem C09_map
        for bi, b in enumerate(T['bulk']):
            n_eval += 1
            kw = dict(shape=b['shape'], yields_pool_indices=b['idx'], pool=[c['val'] for c in T['cases']])
            byi = {c['i']: c for c in T['cases']}
            d_hs = sum(byi[i]['hs'] for i in b['idx']); d_vs = sum(byi[i]['vs'] for i in b['idx'])
            for key, want in (('hs_sum', d_hs), ('hs_exact', d_hs), ('vs_sum', d_vs), ('vs_exact', d_vs)):
                if b[key] is not None and b[key] != want:
                    fail('bulk_direct', T, '%s over a %s iterator = sum of the per-element results of the implementation' % (
                        {'hs_sum': 'heap_size_sum_iter', 'hs_exact': 'heap_size_sum_exact_size_iter', 'vs_sum': 'value_size_sum_iter', 'vs_exact': 'value_size_sum_exact_size_iter'}[key], b['shape']), want, b[key], **kw)
            m = model.get(('bulk', tid, bi))
            if m is None: continue
            m_hs_sum, m_hs_exact, m_vs_sum, m_vs_exact, m_el_hs, m_el_vs, wts = m
            for key, mv in (('hs_sum', m_hs_sum), ('hs_exact', m_hs_exact), ('vs_sum', m_vs_sum), ('vs_exact', m_vs_exact)):
                if b[key] is not None and b[key] != mv:
                    fail('bulk_model', T, '%s over a %s iterator: Coq model vs implementation' % (key, b['shape']), mv, b[key], **kw)
            # the model itself must satisfy its theorem on this input (sanity of the evaluation pipeline)
            if wts == 1 and not (m_hs_sum == m_el_hs == m_hs_exact and m_vs_sum == m_el_vs == m_vs_exact):
                fail('probe', T, 'model bulk helpers equal the model element-wise sums (C08_bulk instance)', [m_el_hs, m_el_vs], [m_hs_sum, m_hs_exact, m_vs_sum, m_vs_exact], **kw)
    return fails, n_eval

# ------------------------------------------------------------------------------------------------
# statistics for the evidence: constructors, nesting, len/cap relations
# ------------------------------------------------------------------------------------------------
TOK = re.compile(r'\(|\)|\[|\]|;|[A-Za-z_]\w*|\d+')
def parse_term(s):
    toks = TOK.findall(s); pos = [0]
    def atom():
        t = toks[pos[0]]
        if t == '(':
            pos[0] += 1; head = toks[pos[0]]; pos[0] += 1; args = []
            while toks[pos[0]] != ')': args.append(atom())
            pos[0] += 1; return (head, args)
        if t == '[':
            pos[0] += 1; items = []
            while toks[pos[0]] != ']':
                if toks[pos[0]] == ';': pos[0] += 1; continue
                items.append(atom())
            pos[0] += 1; return ('list', items)
        pos[0] += 1
        return int(t) if t.isdigit() else (t, [])
    return atom()

def value_stats(term, depth, st):
    if not isinstance(term, tuple): return
    head, args = term
    rel = None
    if head in ('VVec',): rel = (args[0], len(args[1][1]))
    elif head == 'VBuf': rel = (args[0], args[1])
    elif head == 'VMap': rel = (args[1], len(args[3][1]))
    elif head == 'VSet': rel = (args[1], len(args[3][1]))
    if rel is not None:
        cap, ln = rel
        k = 'len<cap' if ln < cap else ('len=cap=0' if cap == 0 else 'len=cap')
        st.setdefault('depth%d' % min(depth, 5), {}).setdefault(k, 0); st['depth%d' % min(depth, 5)][k] += 1
    nd = depth + 1 if head in ('VVec', 'VBox', 'VMap', 'VSet', 'VSeq', 'VSome', 'VOk', 'VErr', 'VWrap', 'VLock', 'VRef') else depth
    for a in args: value_stats(a, nd, st)

def ty_depth(term):
    if not isinstance(term, tuple): return 0
    return 1 + max([ty_depth(a) for a in term[1]] + [0])

def distribution(recs):
    cons = {}; depths = {}; lencap = {}; shapes = {}
    for rec in recs:
        for tid in rec['order']:
            T = rec['types'][tid]
            for c in re.findall(r'\bT[A-Z]\w*', T['ty']): cons[c] = cons.get(c, 0) + 1
            for c in re.findall(r'\bRRange\w*', T['ty']): cons[c] = cons.get(c, 0) + 1
            d = ty_depth(parse_term(T['ty'])); depths[str(d)] = depths.get(str(d), 0) + 1
            for c in T['cases']: value_stats(parse_term(c['val']), 0, lencap)
            for b in T['bulk']: shapes[b['shape']] = shapes.get(b['shape'], 0) + 1
    return dict(constructor_occurrences_in_probed_types=dict(sorted(cons.items())), type_nesting_depth_histogram=dict(sorted(depths.items())),
                len_cap_relation_by_value_nesting_level=dict(sorted(lencap.items())), iterator_shapes=shapes)

# ------------------------------------------------------------------------------------------------
REPLAYING = [None]      # in replay mode nothing is written: violations point at the replay file that was given
def write_replay(pid, payload):
    if REPLAYING[0]: return REPLAYING[0]
    d = os.path.join(ROOT, 'replays'); os.makedirs(d, exist_ok=True)
    blob = json.dumps(payload, indent=1, sort_keys=True)
    path = os.path.join(d, '%s-memsize-%s.json' % (pid, hashlib.sha256(blob.encode()).hexdigest()[:10]))
    open(path, 'w').write(blob + '\n')
    return path

def plan(tier, seed):
    if tier == 'quick':
        return dict(gens=[('debug', seed, 4), ('release', seed + 1, 3)], big_count=1000000, big_profiles=['debug', 'release'], big_extra=[])
    return dict(gens=[('debug', seed * 100 + i, 16) for i in range(8)] + [('release', seed * 100 + 10 + i, 24) for i in range(4)],
                big_count=1000000, big_profiles=['debug', 'release'],
                big_extra=[('release', 'vec_empty_string_arrays', 10000000), ('release', 'vec_nested_empty_arrays', 10000000), ('release', 'vec_u64', 10000000),
                           ('debug', 'vec_empty_string_arrays', 10000000), ('release', 'vec_strings', 10000000), ('release', 'bulk_filtered_empty_arrays', 10000000)])

def main(pid, tier='quick', seed=1, replay=None):
    t0 = time.time()
    if pid not in REQUIRED: print('memsize_check handles C08 and C09 only'); return 2
    cfg = config()
    os.makedirs(CACHE, exist_ok=True)
    bdir = os.path.join(CACHE, 'coq-%s-%d' % (pid, os.getpid()))
    fails = []; problems = []; recs = []; bigs = []; n_eval = 0; flat = {}
    try:
        # replay: restrict to the recorded input
        rp = None
        REPLAYING[0] = replay
        if replay:
            rp = json.load(open(replay))
            if rp.get('seed') is not None: seed = rp['seed']
        with concurrent.futures.ThreadPoolExecutor(max_workers=2) as ex:
            fproof = ex.submit(proof_side, pid, bdir)
            fbuild = ex.submit(build_probe, cfg)
            proof = fproof.result(); problems += fbuild.result()
        pl = plan(tier, seed)
        if rp and rp.get('input'):
            inp = rp['input']
            if inp.get('big_case'):
                pl = dict(gens=[], big_count=inp['count'], big_profiles=[inp['profile']], big_extra=[], big_only=inp['big_case'])
            elif inp.get('type'):
                pl = dict(gens=[(inp['profile'], inp['seed'], inp['reps'])], big_count=0, big_profiles=[], big_extra=[], only=inp['type'])
        if not problems:
            # the text of next() vs the model's flat_impl
            if pid == 'C08':
                flat = flat_next_source(cfg['repo'])
                if not flat.get('found'): problems.append('cannot locate SizedArrayFlatIterator::next in %s: %s' % (cfg['repo'], flat.get('why')))
            # probe runs
            with concurrent.futures.ThreadPoolExecutor(max_workers=8) as ex:
                recs = list(ex.map(lambda g: run_gen(cfg, g[0], g[1], g[2], pl.get('only')), pl['gens']))
                if pid == 'C08' and (pl['big_profiles'] or pl['big_extra']):
                    rc, out = sh([exe(cfg, 'debug'), 'biglist'])
                    names = [x for x in out.split() if x] if rc == 0 else []
                    if pl.get('big_only'): names = [n for n in names if n == pl['big_only']]
                    if not names: problems.append('memsize_probe biglist failed')
                    jobs = [(p, n, pl['big_count']) for p in pl['big_profiles'] for n in names] + list(pl['big_extra'])
                    bigs = list(ex.map(lambda j: run_big(cfg, *j), jobs))
            for rec in recs:
                if pl.get('only'):
                    keep = [t for t in rec['order'] if rec['types'][t]['name'] == pl['only']]
                    rec['order'] = keep
                if rec['rc'] != 0 or not rec['complete']:
                    fails.append(dict(kind='probe', profile=rec['profile'], seed=rec['seed'], reps=rec['reps'], type=None, ty=None,
                                      what='memsize_probe gen ran to completion (a panic here is an arithmetic overflow or a failed unwrap inside the crate or the probe)',
                                      expected='exit 0', observed='exit %s: %s' % (rec['rc'], rec['stderr'])))
                model = {}
                if proof['model_ok']:
                    model, mp = eval_model(rec, bdir, '%s_%d' % (rec['profile'], rec['seed']))
                    problems += mp
                f, n = compare(rec, model); fails += f; n_eval += n
            for b in bigs:
                n_eval += 1
                base = dict(kind='big', profile=b['profile'], seed=None, reps=None, type=b['case'], ty=None, big_case=b['case'], count=b['count'])
                if b['rc'] != 0 or b['got'] is None:
                    fails.append(dict(base, what='heap_size over %d elements finishes on a 256 KiB stack without panicking or exhausting the stack' % b['count'],
                                      expected='normal exit', observed='process ended with %s %s' % (b['rc'], b['err'][-200:])))
                elif b['got'] != b['want']:
                    fails.append(dict(base, what='large-count result equals the independently computed sum', expected=b['want'], observed=b['got']))
            if pid == 'C08' and flat.get('found') and flat['recursive']:
                fails.append(dict(kind='flat_impl', profile=None, seed=None, reps=None, type='SizedArrayFlatIterator::next', ty=None,
                                  what='next() as written is the loop the model transliterates (flat_impl = NextLoop, theorem C08_depth); the source calls itself',
                                  expected='no self call in the body of next()', observed=flat['body'][:600]))
        # ---------------- verdict ----------------
        mine = [f for f in fails if f['kind'] in KINDS[pid]]
        others = [f for f in fails if f['kind'] not in KINDS[pid]]
        violations = []
        if mine:
            # one replay per kind, the smallest input of that kind
            bykind = {}
            for f in mine: bykind.setdefault(f['kind'], []).append(f)
            # a textual flat_impl finding is backed by the failing large-count run when there is one
            if 'flat_impl' in bykind and 'big' in bykind: del bykind['flat_impl']
            for kind, fs in sorted(bykind.items()):
                fs.sort(key=lambda f: (len(json.dumps(f.get('value', f.get('pool', '')))), str(f.get('type'))))
                f = fs[0]
                inp = dict(type=f['type'], profile=f['profile'], seed=f['seed'], reps=f['reps']) if f.get('big_case') is None else dict(big_case=f['big_case'], count=f['count'], profile=f['profile'])
                payload = dict(property=pid, kind=kind, crate=cfg['repo'], tier=tier, seed=seed, input=inp, failing=f, same_kind_failures=len(fs),
                               other_examples=[dict(type=g['type'], what=g['what'], expected=g['expected'], observed=g['observed'], value=g.get('value'), shape=g.get('shape')) for g in fs[1:4]],
                               replay_cmd='python3 tools/memsize_check.py %s --replay <this file>' % pid)
                no_input = kind == 'flat_impl'
                if no_input: payload['theorem'] = 'C08_depth (coq/Properties/C08.v): its model constant flat_impl = NextLoop no longer matches the source'
                violations.append((write_replay(pid, payload), '%s: %s; expected %s, observed %s%s' % (
                    kind, f['what'], f['expected'], f['observed'], (' [%s %s]' % (f['type'], f.get('value', f.get('shape', ''))))[:400]), no_input))
        if problems:
            violations.append((write_replay(pid, dict(property=pid, kind='machinery', crate=cfg['repo'], problems=[p[:2000] for p in problems],
                               note='the correspondence could not be established; no failing input was identified')), 'correspondence broken: ' + problems[0][:300], True))
        if not proof['ok']:
            if not [v for v in violations if not v[2]]:
                violations.append((write_replay(pid, dict(property=pid, kind='proof', crate=cfg['repo'], theorem=REQUIRED[pid], problems=proof['problems'],
                                   note='the proof side of %s no longer checks and the %s-tier correspondence run found no failing input' % (pid, tier))),
                                   'proof obligation broken: ' + '; '.join(proof['problems'])[:400], True))
            else:
                print('NOTE: proof side also broken: ' + '; '.join(proof['problems']))
        # ---------------- evidence ----------------
        distinct = set(); nontriv = set(); samples = []
        for rec in recs:
            for tid in rec['order']:
                T = rec['types'][tid]
                for c in T['cases']:
                    key = (T['ty'], c['val']); distinct.add(key)
                    if c['hs'] > 0 or c['live'] > 0: nontriv.add(key)
        for rec in recs[:1]:
            for tid in rec['order']:
                T = rec['types'][tid]
                if len(samples) < 6 and T['cases'] and ty_depth(parse_term(T['ty'])) >= 3 and T['cases'][0]['live'] > 0 and tid % 7 == 0:
                    c = T['cases'][0]; b = T['bulk'][2] if len(T['bulk']) > 2 else None
                    samples.append(dict(rust_type=T['name'], model_ty=T['ty'], model_value=c['val'], heap_size=c['hs'], mem_size=c['ms'], value_size=c['vs'],
                                        bytes_held_from_allocator=c['live'], bulk=dict(b) if b else None))
        for b in bigs[:3]: samples.append(dict(large_count=b))
        samples.append(dict(theorems=proof['theorems'], files=proof['files']))
        ev = dict(
            property_id=pid, tier=tier, seed=seed, level='proof',
            coverage=dict(
                obligations=max(proof['obligations'], 1), discharged=proof['discharged'],
                checker_cmd='coqc -Q . LruV {Base.v, M/MemModel.v, M/MemProps.v, Properties/%s.v} from scratch in a private copy (Coq 8.16.1); audit: no Admitted/admit/Axiom/Parameter/Conjecture/guard-off, every Print Assumptions closed, required theorems present' % pid,
                trusted_base=TRUSTED_BASE,
                theorems=proof['theorems'], print_assumptions=dict(commands=proof['print_assumptions'], closed=proof['closed']), proof_problems=proof['problems'],
                evaluations=n_eval, distinct_nontrivial=len(nontriv), distinct_values=len(distinct),
                rule='one evaluation = one probed value (heap_size, mem_size, value_size, live bytes; model evaluated on the same term) or one (pool, iterator shape) bulk-helper call set or one large-count run; '
                     'distinct = distinct (model type, model value) pairs; non-trivial = the value owns heap memory (heap_size > 0 or live bytes > 0)',
                traces_validated_against_impl=sum(len(r['order']) for r in recs),
                probed_types=sorted({r['types'][t]['name'] for r in recs for t in r['order']})[:400],
                probe_runs=[dict(profile=r['profile'], seed=r['seed'], values_per_type=r['reps'], types=len(r['order']), group_width=r['gw'], sizeof_entries=len(r['sizes'])) for r in recs],
                large_count_runs=bigs, flat_next_source=flat, input_distribution=distribution(recs),
                failures_of_this_property=len(mine), failures_of_other_layer_M_property=len(others),
                crate=cfg['repo'], harness=cfg['harness'], samples=samples, exhaustive=False),
            assumptions=['no Mutex / RwLock is poisoned (DESIGN.md 9.4)', 'iterators handed to the bulk helpers are pure: make_iter() yields the same items each time',
                         'values fit in memory, so no usize sum overflows (C09_upper bounds every heap_size by the bytes really allocated)'],
            wall_s=round(time.time() - t0, 2), violations=len(violations))
        if not replay:
            os.makedirs(os.path.join(ROOT, 'evidence'), exist_ok=True)
            json.dump(ev, open(os.path.join(ROOT, 'evidence', pid + '.json'), 'w'), indent=1)
        for path, what, nofound in violations:
            print('VIOLATION property=%s replay=%s%s' % (pid, path, ' no-failing-input-found' if nofound else ''))
            print('  ' + what)
        if not violations:
            print('OK %s: %d/%d obligations checked, %d evaluations (%d distinct non-trivial values, %d types, %d large-count runs) agree with the model and the allocator (%.1fs)' % (
                pid, proof['discharged'], proof['obligations'], n_eval, len(nontriv), len({r['types'][t]['name'] for r in recs for t in r['order']}), len(bigs), time.time() - t0))
        return 1 if violations else 0
    finally:
        shutil.rmtree(bdir, ignore_errors=True)

if __name__ == '__main__':
    a = sys.argv[1:]
    if not a: print(__doc__); sys.exit(2)
    tier = os.environ.get('VERIF_TIER', 'quick'); seed = int(os.environ.get('VERIF_SEED', '1')); rp = None
    i = 1
    while i < len(a):
        if a[i] == '--tier': tier = a[i + 1]; i += 2
        elif a[i] == '--seed': seed = int(a[i + 1]); i += 2
        elif a[i] == '--replay': rp = a[i + 1]; i += 2
        else: i += 1
    sys.exit(main(a[0], tier, seed, rp))
