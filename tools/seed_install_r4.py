#!/usr/bin/env python3
"""seed_install_r4.py RESDIR COMMIT — installs the round-4 seeded defects (/tmp/mut4/Cxx.out/mut1, produced by fresh sub-agents that
were given only the property text and a scratch worktree, asked for two cooperating sites / multi-step manifestations) into
/verif/seeded/<property>-<n>/ (next free number per property; the mapping is kept in seeded/round4.json so that a re-run is
stable), with the confirmation (/root/confirm_r4.json, tools/seed_confirm.py) and the verdicts of tools/seedtest.py (RESDIR)."""
import sys, os, json, glob, shutil
ROOT = os.path.dirname(os.path.dirname(os.path.abspath(__file__)))
# what the first run over a seeded defect showed, where that differs from the final result (DESIGN.md 12.1)
BEFORE = {
    'C03': 'missed by C03 when first run (C02 reported the replacing insert): the over-evicting later steps start from a state with stale recorded sizes and were not judged; added c03_mon (minimality in the true sizes, proved sound for the model), evaluated on every observed step',
    'C01': 'would have been missed by C01 (the clone that exceeds the limit is taken from a source with inconsistent bookkeeping, a step that was not judged): the absolute monitors of C01 are now evaluated on the post-state of such steps too',
    'C06': 'missed by every check when first run with the 17 trace-based checks (/root/seedres_r4_C06_first_run.json): a double drop of objects handed out and dropped within the same into_iter step; added the per-step ledger mon_c06 for the consuming iterators',
}

def main():
    resdir, commit = sys.argv[1], sys.argv[2]
    mp_path = os.path.join(ROOT, 'seeded', 'round4.json')
    mapping = json.load(open(mp_path)) if os.path.exists(mp_path) else {}
    confirm = json.load(open('/root/confirm_r4.json')) if os.path.exists('/root/confirm_r4.json') else {}
    rows = []
    for mdir in sorted(glob.glob('/tmp/mut4/C??.out/mut1')):
        prop = os.path.basename(os.path.dirname(mdir))[:3]
        if not os.path.exists(os.path.join(mdir, 'patch.diff')): continue
        if prop not in mapping:
            n = len(glob.glob(os.path.join(ROOT, 'seeded', prop + '-*'))) + 1
            mapping[prop] = '%s-%d' % (prop, n)
        sid = mapping[prop]
        dst = os.path.join(ROOT, 'seeded', sid)
        os.makedirs(dst, exist_ok=True)
        for name in ('patch.diff', 'demo.rs'):
            if os.path.exists(os.path.join(mdir, name)): shutil.copy(os.path.join(mdir, name), os.path.join(dst, name))
        try: meta = json.load(open(os.path.join(mdir, 'meta.json')))
        except Exception as ex: meta = dict(error=str(ex))
        out = dict(property=prop, breaks=prop, round='4', summary=meta.get('summary'), needs=meta.get('needs'), sites=meta.get('sites'),
                   produced_by='a fresh sub-agent given only the property text and its own scratch worktree of /repo, asked for a change that needs something specific to manifest, preferably two cooperating sites that each look fine alone',
                   confirmed=confirm.get('%s-1' % prop), ran_by_subagent=meta.get('ran'))
        f = os.path.join(resdir, 'tmp_mut4_%s.out_mut1.json' % prop)
        if os.path.exists(f):
            res = json.load(open(f))
            flagged = res.get('flagged_by', [])
            conc, tie = [], []
            for pid_ in flagged:
                vl = res.get('checks', {}).get(pid_, {}).get('violations', [])
                (tie if vl and all('no-failing-input-found' in v for v in vl) else conc).append(pid_)
            out.update(ran_here=['git -C /repo apply seeded/%s/patch.diff ; the quick_cmd of %s from MANIFEST.json (VERIF_SEED=7) ; git -C /repo checkout -- .' % (sid, ', '.join(sorted(res.get('checks', {}))))],
                       run_commit=commit, checks_run=sorted(res.get('checks', {})), flagged_by=flagged, flagged_with_failing_input=conc,
                       flagged_tie_only_no_failing_input_found=tie, detected_by_target_check=res.get('target_detected'),
                       violations_of_target=res.get('checks', {}).get(prop, {}).get('violations', [])[:3])
        if prop in BEFORE: out['before_strengthening'] = BEFORE[prop]
        json.dump(out, open(os.path.join(dst, 'meta.json'), 'w'), indent=1)
        rows.append((sid, out.get('flagged_with_failing_input'), out.get('flagged_tie_only_no_failing_input_found'), out.get('detected_by_target_check'), (meta.get('summary') or '')[:150]))
    json.dump(mapping, open(mp_path, 'w'), indent=1, sort_keys=True)
    for sid, conc, tie, det, summ in rows:
        print('| %s | %s | %s | %s | %s |' % (sid, summ.replace('|', '/').replace('\n', ' '), ', '.join(conc or []) or '-', ', '.join(tie or []) or '-', 'yes' if det else ('no' if det is not None else 'not run')))

if __name__ == '__main__':
    main()
