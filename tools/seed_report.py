#!/usr/bin/env python3
"""seed_report.py — prints the markdown table of DESIGN.md section 12 from /verif/seeded/*/meta.json."""
import os, json, glob
ROOT = os.path.dirname(os.path.dirname(os.path.abspath(__file__)))
def main():
    rows = []
    for d in sorted(glob.glob(os.path.join(ROOT, 'seeded', '*'))):
        try: m = json.load(open(os.path.join(d, 'meta.json')))
        except Exception: continue
        sid = os.path.basename(d)
        conc = m.get('flagged_with_failing_input', []); tie = m.get('flagged_tie_only_no_failing_input_found', [])
        rows.append((sid, m.get('round', '1'), (m.get('summary') or '').replace('|', '/').replace('\n', ' ')[:150], (m.get('needs') or '').replace('|', '/').replace('\n', ' ')[:110],
                     'yes' if m.get('detected_by_target_check') else 'NO', ','.join(conc) or '-', ','.join(tie) or '-', m.get('run_commit', '?'), m.get('first_run_result', '')))
    print('| seeded | round | what it changes | what it needs | caught by the check of its property | checks that report it with a failing input | checks that report only a broken tie (`no-failing-input-found`) | run at | before strengthening |')
    print('|---|---|---|---|---|---|---|---|---|')
    for r in rows: print('| ' + ' | '.join(str(x) for x in r) + ' |')
    # the same, read by check
    by = {}
    for r in rows:
        for c in (r[5].split(',') if r[5] != '-' else []): by.setdefault(c, [[], []])[0].append(r[0])
        for c in (r[6].split(',') if r[6] != '-' else []): by.setdefault(c, [[], []])[1].append(r[0])
    print()
    print('| check | seeded defects it reports with a failing input | seeded defects it reports only as a broken tie |')
    print('|---|---|---|')
    for c in sorted(by): print('| %s | %s | %s |' % (c, ', '.join(by[c][0]) or '-', ', '.join(by[c][1]) or '-'))
    n = len(rows); det = sum(1 for r in rows if r[4] == 'yes')
    print()
    print('%d seeded defects; %d are reported by the check of the property they were written against (with a failing input or as a broken tie); the others: %s' % (n, det, ', '.join(r[0] for r in rows if r[4] != 'yes') or 'none'))
if __name__ == '__main__':
    main()
