#!/usr/bin/env python3
"""seed_report.py — prints the markdown table of DESIGN.md section 12 from /verif/seeded/*/meta.json."""
import os, json, glob
ROOT = os.path.dirname(os.path.dirname(os.path.abspath(__file__)))
def main():
    rows = []
    for d in sorted(glob.glob(os.path.join(ROOT, 'seeded', '*'))):
        try: m = json.load(open(os.path.join(d, 'meta.json')))
        except Exception: continue
        sid = os.path.basename(d)
        conc = m.get('flagged_with_failing_input', []); tie = m.get('flagged_tie_only_no_failing_input_found', [])
        rows.append((sid, m.get('round', '1'), (m.get('summary') or '').replace('|', '/').replace('\n', ' ')[:150], (m.get('needs') or '').replace('|', '/').replace('\n', ' ')[:110],
                     'yes' if m.get('detected_by_target_check') else 'NO', ','.join(conc) or '-', ','.join(tie) or '-', m.get('run_commit', '?'), m.get('first_run_result', '')))
    print('| seeded | round | what it changes | what it needs | caught by the check of its property | checks that report it with a failing input | checks that report only a broken tie (`no-failing-input-found`) | run at | before strengthening |')
    print('|---|---|---|---|---|---|---|---|---|')
    for r in rows: print('| ' + ' | '.join(str(x) for x in r) + ' |')
if __name__ == '__main__':
    main()
