#!/usr/bin/env python3
"""seed_confirm.py — confirms every seeded defect in its own scratch worktree (/tmp/mut/Cxx):
demo passes on the unchanged library, the existing suite passes with the change, the demo fails with the change."""
import os, sys, json, subprocess, glob, concurrent.futures
ENV = dict(os.environ, CARGO_NET_OFFLINE='true')
def sh(cmd, cwd, timeout=1800):
    p = subprocess.run(cmd, shell=True, cwd=cwd, stdout=subprocess.PIPE, stderr=subprocess.STDOUT, text=True, timeout=timeout, env=ENV)
    return p.returncode, p.stdout
def one(prop):
    wt = os.environ.get('SEED_WT', '/tmp/mut/%s') % prop
    out = {}
    for m in sorted(glob.glob('/tmp/mut/%s.out/%s' % (prop, os.environ.get('SEED_ONLY', 'mut*')))):
        n = os.path.basename(m).replace('mut', '')
        sid = '%s-%s' % (prop, n)
        sh('git checkout -- . && git clean -fdq -e target', wt)
        demo = os.path.join(m, 'demo.rs')
        os.makedirs(os.path.join(wt, 'tests'), exist_ok=True)
        sh('cp %s tests/demo_seed.rs' % demo, wt)
        rc0, o0 = sh('cargo test --offline -j4 --test demo_seed 2>&1 | tail -15', wt)
        ok_clean = 'test result: ok' in o0
        rca, oa = sh('git apply %s' % os.path.join(m, 'patch.diff'), wt)
        rc1, o1 = sh('cargo test --offline -j4 --test demo_seed 2>&1 | tail -25', wt)
        fails_mut = ('test result: FAILED' in o1) or ('error' in o1 and 'test result: ok' not in o1)
        sh('rm -f tests/demo_seed.rs', wt)
        rc2, o2 = sh('cargo test --workspace --no-fail-fast --offline -j4 2>&1 | grep -E "^test result|^error" | head -12', wt)
        suite_ok = ('FAILED' not in o2) and ('\nerror' not in ('\n' + o2)) and o2.count('test result: ok') >= 5
        sh('git checkout -- . && git clean -fdq -e target', wt)
        out[sid] = dict(patch_applies=(rca == 0), demo_passes_unchanged=ok_clean, demo_fails_with_change=fails_mut, suite_passes_with_change=suite_ok,
                        detail=dict(unchanged=o0[-300:], changed=o1[-500:], suite=o2[-400:]))
        print(sid, out[sid]['patch_applies'], ok_clean, fails_mut, suite_ok, flush=True)
    return out
def main():
    props = sys.argv[1:] or ['C%02d' % i for i in range(1, 21)]
    res = {}
    with concurrent.futures.ThreadPoolExecutor(max_workers=3) as ex:
        for r in ex.map(one, props): res.update(r)
    outp = os.environ.get('SEED_CONFIRM_OUT', '/root/seedres/confirm.json')
    os.makedirs(os.path.dirname(outp), exist_ok=True)
    old = json.load(open(outp)) if os.path.exists(outp) and os.environ.get('SEED_ONLY') else {}
    old.update(res)
    json.dump(old, open(outp, 'w'), indent=1)
if __name__ == '__main__':
    main()
