#!/usr/bin/env python3
"""Layer P2: the bodies of the COMPOSITE operations of LruCache (insert, try_insert, mutate, set_max_size, eject_to_target,
remove_metadata, ...), translated from the Rust source, are proved equal to the hand-written definitions of coq/B/StepB.v.

One run =
  (1) /verif/sigdump (built offline when its source changed) translates the bodies of a fixed list of methods of
      $VERIF_REPO/src/lib.rs (default /repo) into programs of coq/Gen/OpLang.v  ->  OpBodies.v
  (2) OpLang.v + OpBodies.v + OpBodiesProps.v are compiled in a scratch directory /verif/.cache/p2/build-<hash>/ against the
      already compiled /verif/coq (its .vo files are linked, not copied), every coqc under a memory cap and a timeout
  (3) a JSON summary on stdout, exit status 0 (every theorem holds) or 1.

Nothing is written into the source tree unless --regen is given (then coq/Gen/OpBodies.v is replaced by the freshly
generated file, for committing).  Results are cached by content (source + translator + Coq files + the .vo files they
import); a cached run only hashes files.

usage: op_check.py [--regen] [--no-cache] [--pretty]
"""
import fcntl, hashlib, json, os, re, shutil, subprocess, sys, time

ROOT = os.path.dirname(os.path.dirname(os.path.abspath(__file__)))
COQ = os.path.join(ROOT, 'coq')
CACHE = os.path.join(ROOT, '.cache', 'p2')
TARGET = os.path.join(ROOT, '.cache', 'target-g')          # shared with tools/sig_check.py and body_check.py: same crate
DEFAULT_REPO = '/repo'
RUST_FILES = ['src/lib.rs']
HAND_FILES = ['Gen/OpLang.v', 'Gen/OpBodiesProps.v']
GEN_FILE = 'Gen/OpBodies.v'
IMPORTED_VO = ['Base.vo', 'A/ModelA.vo', 'B/Heap.vo', 'B/Chain.vo', 'B/CursorB.vo', 'B/RepB.vo', 'B/OpsB.vo', 'B/TakingB.vo', 'B/StepB.vo']
FORBIDDEN = re.compile(r'\b(Admitted|admit|Axiom|Axioms|Parameter|Parameters|Conjecture|Hypothesis|Variable|Abort|'
                       r'bypass_check|Unset\s+Guard|Unset\s+Positivity|Unset\s+Universe|Type\s+in\s+Type)\b')
THEOREM = r'(?:Theorem|Lemma|Corollary|Fact|Remark|Proposition|Example)'
MAX_DIAG = 8
MEM_KB = 12000000            # ulimit -v for every coqc
COQC_TIMEOUT = 600


def sha(*parts):
    h = hashlib.sha256()
    for p in parts:
        h.update(p if isinstance(p, bytes) else str(p).encode()); h.update(b'\0')
    return h.hexdigest()


def read(path, mode='r'):
    with open(path, mode) as f:
        return f.read()


def sh(cmd, cwd=None, env=None, timeout=600):
    e = dict(os.environ); e.update(env or {})
    try:
        p = subprocess.run(cmd, cwd=cwd, env=e, stdout=subprocess.PIPE, stderr=subprocess.STDOUT, timeout=timeout,
                           shell=isinstance(cmd, str), text=True, errors='replace')
        return p.returncode, p.stdout
    except subprocess.TimeoutExpired:
        return 124, 'timeout after %ss' % timeout


def strip_comments(src):
    out = []; depth = 0; i = 0; instr = False
    while i < len(src):
        c = src[i]
        if depth == 0 and c == '"':
            instr = not instr; out.append(c); i += 1
        elif not instr and src.startswith('(*', i): depth += 1; i += 2
        elif not instr and src.startswith('*)', i) and depth > 0: depth -= 1; i += 2
        else:
            if depth == 0: out.append(c)
            i += 1
    return ''.join(out)


def strip_strings(src):
    return re.sub(r'"(?:[^"]|"")*"', '""', src)


class Lock:
    def __init__(self, name): self.path = os.path.join(CACHE, name + '.lock')
    def __enter__(self):
        os.makedirs(CACHE, exist_ok=True)
        self.f = open(self.path, 'w'); fcntl.flock(self.f, fcntl.LOCK_EX); return self
    def __exit__(self, *a):
        fcntl.flock(self.f, fcntl.LOCK_UN); self.f.close()


# ------------------------------------------------------------------------------------------------
# 1. translator
# ------------------------------------------------------------------------------------------------
def translator_key():
    d = os.path.join(ROOT, 'sigdump')
    parts = []
    for f in ['Cargo.toml', 'Cargo.lock'] + sorted('src/' + x for x in os.listdir(os.path.join(d, 'src')) if x.endswith('.rs')):
        parts.append(f); parts.append(read(os.path.join(d, f), 'rb'))
    return sha(*parts)


def generate(repo, use_cache=True):
    """(ok, OpBodies.v text, info dict from the translator, log)"""
    try:
        srcs = [read(os.path.join(repo, f), 'rb') for f in RUST_FILES]
    except OSError as ex:
        return False, None, None, 'cannot read the sources: %s' % ex
    key = sha(translator_key(), *srcs)[:20]
    gdir = os.path.join(CACHE, 'gen-' + key)
    out_v, out_j = os.path.join(gdir, 'OpBodies.v'), os.path.join(gdir, 'ops.json')
    if use_cache and os.path.exists(os.path.join(gdir, 'done')):
        return True, read(out_v), json.loads(read(out_j)), 'cached'
    with Lock('gen'):
        rc, out = sh('timeout 900 cargo build --offline 2>&1', cwd=os.path.join(ROOT, 'sigdump'), timeout=1000,
                     env={'CARGO_TARGET_DIR': TARGET, 'CARGO_NET_OFFLINE': 'true'})
        exe = os.path.join(TARGET, 'debug', 'sigdump')
        if rc != 0 or not os.path.exists(exe):
            return False, None, None, 'sigdump does not build: ' + out[-2000:]
        shutil.rmtree(gdir, ignore_errors=True); os.makedirs(gdir)
        rc, out = sh([exe, '--ops', out_v, out_j], env={'VERIF_REPO': repo}, timeout=120)
        if rc != 0 or not os.path.exists(out_v) or not os.path.exists(out_j):
            return False, None, None, 'sigdump --ops failed on %s/src: %s' % (repo, out[-2000:])
        open(os.path.join(gdir, 'done'), 'w').write(out)
        prune('gen-', keep=24, spare=gdir)
    return True, read(out_v), json.loads(read(out_j)), out


def prune(prefix, keep, spare):
    ds = sorted([os.path.join(CACHE, d) for d in os.listdir(CACHE) if d.startswith(prefix)], key=os.path.getmtime)
    for old in ds[:-keep]:
        if old != spare: shutil.rmtree(old, ignore_errors=True)


# ------------------------------------------------------------------------------------------------
# 2. Coq
# ------------------------------------------------------------------------------------------------
def theorem_spans(src):
    """[(name, start offset of the statement, offset of its 'Proof.', end offset after 'Qed.')]"""
    spans = []
    for m in re.finditer(r'^[ \t]*' + THEOREM + r'\s+(\w+)', src, re.M):
        p = src.find('Proof.', m.start())
        if p < 0: continue
        ends = [(src.find(w, p), w) for w in ('Qed.', 'Admitted.', 'Defined.')]
        ends = [(q, w) for q, w in ends if q >= 0]
        if not ends: continue
        q, w = min(ends)
        spans.append((m.group(1), m.start(), p, q + len(w)))
    return spans


def theorem_at(src, line):
    off = sum(len(l) + 1 for l in src.split('\n')[:max(line - 1, 0)])
    name = None
    for n, a, p, b in theorem_spans(src):
        if a <= off < b: return n
        if a <= off: name = n
    return None if name is None else name + '?'      # after the end of that proof: a definition in between


def coqc(bdir, f):
    # every coqc under a memory cap and a timeout
    return sh('ulimit -v %d; exec timeout %d coqc -q -Q . LruV %s 2>&1' % (MEM_KB, COQC_TIMEOUT, f), cwd=bdir, timeout=COQC_TIMEOUT + 60)


def first_error(out):
    m = re.search(r'File "([^"]+)", line (\d+), characters (\d+)-(\d+)', out)
    em = re.search(r'\nError:?\s*(.*)', out, re.S)
    msg = ' '.join((em.group(1) if em else out).split())[:700]
    return (m.group(1), int(m.group(2))) if m else (None, 0), msg


def link_farm(bdir):
    """a directory that looks like /verif/coq (compiled) except for Gen/, which holds only the three files of this layer"""
    os.makedirs(os.path.join(bdir, 'Gen'))
    for name in sorted(os.listdir(COQ)):
        p = os.path.join(COQ, name)
        if name == 'Gen' or name.startswith('.'): continue
        if os.path.isdir(p) or name.endswith('.vo'):
            os.symlink(p, os.path.join(bdir, name))


def fn_of_theorem(name, idents):
    """P2_<ident>[_suffix] -> the function (longest identifier that is a prefix)"""
    base = re.sub(r'^[A-Za-z0-9]+_', '', name.rstrip('?'), count=1)
    best = None
    for ident, qname in idents:
        if base == ident or base.startswith(ident + '_'):
            if best is None or len(ident) > len(best[0]): best = (ident, qname)
    return best[1] if best else None


def check(bodies_v, info, use_cache=True):
    files = {GEN_FILE: bodies_v}
    for f in HAND_FILES: files[f] = read(os.path.join(COQ, f))
    missing = [v for v in IMPORTED_VO if not os.path.exists(os.path.join(COQ, v))]
    if missing:
        return dict(ok=False, theorems=[], failed=[dict(theorem=None, function=None, error='/verif/coq is not built (missing %s): run make in /verif/coq first' % ', '.join(missing))])
    key = sha(read(os.path.abspath(__file__), 'rb'), *[k + '\n' + v for k, v in sorted(files.items())],
              *[read(os.path.join(COQ, v), 'rb') for v in IMPORTED_VO])[:20]
    bdir = os.path.join(CACHE, 'build-' + key)
    resf = os.path.join(bdir, 'result.json')
    if use_cache and os.path.exists(resf):
        r = json.loads(read(resf)); r['cached'] = True; return r
    idents = [(f['ident'], f['name']) for f in info['functions']]
    with Lock('build'):
        if use_cache and os.path.exists(resf):
            r = json.loads(read(resf)); r['cached'] = True; return r
        shutil.rmtree(bdir, ignore_errors=True); os.makedirs(bdir)
        link_farm(bdir)
        for f, s in files.items(): open(os.path.join(bdir, f), 'w').write(s)
        t0 = time.time()
        props = files['Gen/OpBodiesProps.v']
        names = [n for n, _, _, _ in theorem_spans(props) if re.match(r'P2_', n)]
        failed = []; out_ok = ''
        for f in ['Gen/OpLang.v', GEN_FILE]:
            rc, out = coqc(bdir, f)
            if rc != 0:
                (_, line), msg = first_error(out)
                failed.append(dict(theorem=None, function=None, file=f, line=line, error='%s does not compile: %s' % (f, msg)))
                break
        if not failed:
            cur = props; rounds = 0
            while True:
                target = 'Gen/OpBodiesProps.v' if rounds == 0 else 'Gen/OpBodiesPropsDiag.v'
                if rounds: open(os.path.join(bdir, target), 'w').write(cur)
                rc, out = coqc(bdir, target)
                if rc == 0:
                    if rounds == 0: out_ok = out
                    break
                (_, line), msg = first_error(out)
                if rc == 124 or 'out of memory' in out.lower():
                    msg = ('coqc ran out of time (%ds) or memory (%d KB): ' % (COQC_TIMEOUT, MEM_KB)) + msg
                mp = re.search(r'\(in proof (\w+)\)', msg)
                th = mp.group(1) if mp else (theorem_at(cur, line) if line else None)
                if th is None or th.endswith('?') or any(x['theorem'] == th for x in failed) or rounds >= MAX_DIAG:
                    failed.append(dict(theorem=th, function=fn_of_theorem(th, idents) if th else None, line=line,
                                       error=msg + ('' if rounds < MAX_DIAG else ' (diagnosis stopped here)')))
                    break
                failed.append(dict(theorem=th, function=fn_of_theorem(th, idents), line=line, error=msg))
                # diagnosis only, in the scratch directory: give up this proof and look for further broken ones
                for n, a, p, b in theorem_spans(cur):
                    if n == th:
                        cur = cur[:p] + 'Proof. Admitted.' + cur[b:]
                        break
                cur = re.sub(r'^\s*Print Assumptions[^\n]*\n', '', cur, flags=re.M)
                rounds += 1
        # audit of the real files (never of the diagnosis copy)
        audit = []
        for f, s in files.items():
            m = FORBIDDEN.search(strip_strings(strip_comments(s)))
            if m: audit.append('forbidden vernacular %r in %s' % (m.group(0), f))
        if not failed:
            n_pa = len(re.findall(r'^\s*Print Assumptions', strip_comments(props), re.M))
            closed = out_ok.count('Closed under the global context')
            n_th = len(re.findall(r'^\s*(?:Theorem|Corollary)\s', strip_comments(props), re.M))
            if n_pa != closed or 'Axioms:' in out_ok or n_pa < n_th:
                audit.append('OpBodiesProps.v: %d theorems, %d Print Assumptions, %d closed%s' % (n_th, n_pa, closed, ' (axioms reported)' if 'Axioms:' in out_ok else ''))
        for a in audit: failed.append(dict(theorem=None, function=None, error='audit: ' + a))
        bad = set(x['theorem'] for x in failed if x.get('theorem'))
        res = dict(ok=not failed, key=key, dir=bdir, cached=False, coq_wall_s=round(time.time() - t0, 2),
                   theorems=names, proved=[n for n in names if n not in bad] if (not failed or all(x.get('theorem') for x in failed)) else [],
                   failed=failed)
        json.dump(res, open(resf, 'w'))
        prune('build-', keep=24, spare=bdir)
    return res


# ------------------------------------------------------------------------------------------------
def main(argv):
    t0 = time.time()
    regen = '--regen' in argv; use_cache = '--no-cache' not in argv
    repo = os.environ.get('VERIF_REPO', DEFAULT_REPO)
    os.makedirs(CACHE, exist_ok=True)
    ok, bodies_v, info, log = generate(repo, use_cache)
    if not ok:
        res = dict(ok=False, functions=[], theorems=[], failed=[dict(theorem=None, function=None, error=log)], unknown_statements=[])
    else:
        res = check(bodies_v, info, use_cache)
        res['functions'] = [f['name'] for f in info['functions']]
        res['unknown_statements'] = [dict(function=f['name'], text=t) for f in info['functions'] for t in f['unknown']]
        intree = os.path.join(COQ, GEN_FILE)
        same = os.path.exists(intree) and read(intree) == bodies_v
        res['in_tree_opbodies_v_is_current'] = same
        if regen and not same:
            tmp = intree + '.tmp%d' % os.getpid()
            open(tmp, 'w').write(bodies_v); os.replace(tmp, intree)
            res['in_tree_opbodies_v_is_current'] = True; res['regenerated'] = intree
    res['repo'] = repo
    res['wall_s'] = round(time.time() - t0, 2)
    order = ['ok', 'functions', 'theorems', 'failed', 'unknown_statements']
    res = {k: res[k] for k in order + [k for k in res if k not in order] if k in res}
    print(json.dumps(res, indent=2 if '--pretty' in argv else None))
    return 0 if res['ok'] else 1


if __name__ == '__main__':
    sys.exit(main(sys.argv[1:]))
